#!/bin/sh
# usage: mut_run.sh <patch.diff> <check-id> [tier] -- run one check against a scratch worktree of /repo HEAD + patch
p=$1; id=$2; tier=${3:-quick}
wt=/tmp/mr_$$
git -C /repo worktree add -q --detach $wt HEAD || exit 2
git -C $wt apply $p || { echo "patch does not apply"; git -C /repo worktree remove --force $wt; exit 2; }
QSYM_REPO=$wt QSYM_EVIDENCE_DIR=/tmp/mr_ev_$$ QSYM_REPLAY_DIR=/tmp/mr_ev_$$/replays /verif/check $id $tier 2>&1 | grep -E '^(check|VIOLATION|BROKEN|INCOMPLETE|VALIDATION|  harness)' | cut -c1-${COLS:-260} | sort | uniq -c | sort -rn | head -${LINES_MAX:-12}
python3 - <<PY
import json
try:
    c=json.load(open('/tmp/mr_ev_$$/$id.json'))['coverage']
    print('unconfirmed:', c['unconfirmed_candidates'], 'undischarged:', len(c['undischarged'] or []))
    for v in c['violations_detail'][:40]:
        if v['status']=='unconfirmed': print('  UNCONFIRMED', v['harness'], v['item'], v['label'], v['kind'])
    for u in (c['undischarged'] or [])[:5]: print('  UNDIS', u[:200])
except Exception as e: print(e)
PY
git -C /repo worktree remove --force $wt; rm -rf /tmp/mr_ev_$$
