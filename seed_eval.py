#!/usr/bin/env python3
"""Confirm a seeded change and run the checks against it.

usage: seed_eval.py <outdir> <name> [--checks C01,C02|all] [--tier quick|thorough]

1. In a scratch worktree of /repo (removed afterwards): the suite passes on the clean tree, the
   demonstration passes without the change, the patch applies, the library builds, the suite still
   passes with the change, the demonstration fails with the change.
2. The patch is applied to /repo itself, the selected checks are run, and /repo is restored.
3. /verif/seeded/<name>/ receives patch.diff, the demonstration, and meta.json with what was run.
"""
import json, os, shutil, subprocess, sys, time

ENV = dict(os.environ, GOFLAGS="-mod=mod", GOPROXY="off", GOSUMDB="off", GOTOOLCHAIN="local")


def sh(cmd, cwd=None, timeout=3600):
    p = subprocess.run(cmd, shell=True, cwd=cwd, env=ENV, capture_output=True, text=True, timeout=timeout)
    return p.returncode, (p.stdout + p.stderr)


def main():
    out, name = sys.argv[1], sys.argv[2]
    checks, tier = "all", "quick"
    for i, a in enumerate(sys.argv):
        if a == "--checks":
            checks = sys.argv[i + 1]
        if a == "--tier":
            tier = sys.argv[i + 1]
    meta_in = {}
    try:
        meta_in = json.load(open(os.path.join(out, "meta.json")))
    except Exception as e:
        print("no/invalid meta.json:", e)
    prop = meta_in.get("property", name.split("_")[0])
    demo_dir = meta_in.get("demo_dir", "zzdemo")
    demo_src = os.path.join(out, "demo_test.go")
    patch = os.path.join(out, "patch.diff")
    race = "-race" if "race" in json.dumps(meta_in).lower() and prop == "C20" else ""
    res = {"property": prop, "name": name, "summary": meta_in.get("summary"), "needs_to_manifest": meta_in.get("needs_to_manifest"),
           "files_changed": meta_in.get("files_changed"), "demo_dir": demo_dir, "ran": []}

    wt = f"/tmp/sv_{name}"
    sh(f"git -C /repo worktree remove --force {wt}")
    rc, o = sh(f"git -C /repo worktree add -q --detach {wt} HEAD")
    if rc != 0:
        print("worktree failed", o)
        return 2
    ok = True
    try:
        os.makedirs(os.path.join(wt, demo_dir), exist_ok=True)
        shutil.copy(demo_src, os.path.join(wt, demo_dir, "demo_test.go"))
        rc, o = sh(f"go test {race} -vet=off -count=1 ./{demo_dir}/", cwd=wt)
        res["demo_passes_without_change"] = rc == 0
        res["ran"].append(f"clean tree: go test {race} ./{demo_dir}/ -> rc={rc}")
        rc, o = sh(f"git apply {patch}", cwd=wt)
        res["patch_applies"] = rc == 0
        if rc != 0:
            print("patch does not apply:", o[:500])
            ok = False
        else:
            rc, o = sh("go build ./...", cwd=wt)
            res["builds_with_change"] = rc == 0
            rc, o = sh("go test -vet=off -count=1 $(go list ./... | grep -v /" + demo_dir + "$)", cwd=wt)
            res["suite_passes_with_change"] = rc == 0
            res["ran"].append(f"with change: go test ./... (suite, demo excluded) -> rc={rc}")
            if rc != 0:
                print(o[-800:])
            rc, o = sh(f"go test {race} -vet=off -count=1 ./{demo_dir}/", cwd=wt)
            res["demo_fails_with_change"] = rc != 0
            res["ran"].append(f"with change: go test {race} ./{demo_dir}/ -> rc={rc}")
            res["demo_output_tail"] = o[-600:]
    finally:
        sh(f"git -C /repo worktree remove --force {wt}")
        sh(f"rm -rf {wt}")
    confirmed = ok and all(res.get(k) for k in ["demo_passes_without_change", "patch_applies", "builds_with_change", "suite_passes_with_change", "demo_fails_with_change"])
    res["confirmed"] = confirmed
    print(json.dumps({k: v for k, v in res.items() if k not in ("ran", "demo_output_tail")}, indent=1))
    if not confirmed:
        json.dump(res, open(os.path.join(out, "eval.json"), "w"), indent=1)
        return 1

    # run the checks with the change applied: against /repo itself (prescribed way, default) or,
    # with --scratch, against a scratch worktree of /repo HEAD + patch (QSYM_REPO), which leaves /repo free
    scratch = "--scratch" in sys.argv
    ids = [c["property_id"] for c in json.load(open("/verif/MANIFEST.json"))["checks"]]
    if checks != "all":
        ids = [c for c in checks.split(",")]
    verdicts = {}
    target = "/repo"
    extra_env = ""
    if scratch:
        target = f"/tmp/sr_{name}"
        sh(f"git -C /repo worktree remove --force {target}")
        rc, o = sh(f"git -C /repo worktree add -q --detach {target} HEAD")
        assert rc == 0, o
        extra_env = f"QSYM_REPO={target} QSYM_EVIDENCE_DIR=/tmp/se_{name} QSYM_REPLAY_DIR=/tmp/se_{name}/replays "
    else:
        rc, o = sh("git -C /repo status --porcelain")
        if o.strip():
            print("REFUSING: /repo is not clean")
            return 2
    res["checks_ran_against"] = "scratch worktree of /repo HEAD + patch (QSYM_REPO)" if scratch else "/repo with the patch applied (git apply), restored afterwards"
    try:
        rc, o = sh(f"git -C {target} apply {patch}")
        assert rc == 0, o
        for cid in ids:
            t0 = time.time()
            rc, o = sh(f"{extra_env}/verif/check {cid} {tier}", cwd="/verif", timeout=7200)
            line = [l for l in o.splitlines() if l.startswith("check ")]
            viol = [l for l in o.splitlines() if l.startswith("VIOLATION")]
            detail = [l.strip() for l in o.splitlines() if l.startswith("  harness=")]
            verdicts[cid] = {"rc": rc, "violations": len(viol), "first": (detail[0][:300] if detail else ""), "summary": (line[0][:200] if line else o[-200:]), "wall_s": round(time.time() - t0, 1)}
            print(cid, "rc=", rc, "violations=", len(viol), (detail[0][:160] if detail else ""))
    finally:
        if scratch:
            sh(f"git -C /repo worktree remove --force {target}")
            sh(f"rm -rf {target} /tmp/se_{name}")
        else:
            sh("git -C /repo checkout -- .")
            sh("git -C /repo clean -fdq")
    res["checks_tier"] = tier
    res["check_verdicts"] = verdicts
    res["caught_by"] = sorted(c for c, v in verdicts.items() if v["rc"] == 1)
    res["target_caught"] = prop in res["caught_by"]
    d = f"/verif/seeded/{name}"
    os.makedirs(d, exist_ok=True)
    shutil.copy(patch, os.path.join(d, "patch.diff"))
    shutil.copy(demo_src, os.path.join(d, "demo_test.go"))
    json.dump(res, open(os.path.join(d, "meta.json"), "w"), indent=1)
    print("caught by:", res["caught_by"], "target caught:", res["target_caught"])
    return 0


if __name__ == "__main__":
    sys.exit(main())
