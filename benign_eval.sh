#!/bin/sh
# usage: benign_eval.sh <patch.diff> <name> [tier] -- run every check against a scratch worktree of /repo HEAD + a
# behaviour-preserving patch; any VIOLATION / BROKEN / non-zero exit is a false alarm of the machinery.
p=$1; name=$2; tier=${3:-quick}
export GOFLAGS=-mod=mod GOPROXY=off GOSUMDB=off GOTOOLCHAIN=local
wt=/tmp/bn_$name
git -C /repo worktree remove --force $wt 2>/dev/null
git -C /repo worktree add -q --detach $wt HEAD || exit 2
git -C $wt apply $p || { echo "patch does not apply"; git -C /repo worktree remove --force $wt; exit 2; }
(cd $wt && go build ./... && go test -vet=off -count=1 ./... >/dev/null 2>&1) || echo "SUITE FAILS with $name"
for id in $(python3 -c "import json;print(' '.join(c['property_id'] for c in json.load(open('/verif/MANIFEST.json'))['checks']))"); do
  out=$(QSYM_REPO=$wt QSYM_EVIDENCE_DIR=/tmp/bn_ev_$name QSYM_REPLAY_DIR=/tmp/bn_ev_$name/replays ${VDIR:-/verif}/check $id $tier 2>&1); rc=$?
  line=$(echo "$out" | grep -E '^check ' | cut -c1-230)
  und=$(echo "$line" | sed -n 's/.*undischarged=\([0-9]*\).*/\1/p')
  if [ $rc -ne 0 ] || [ "${und:-0}" != "0" ]; then
    echo "$name $id rc=$rc $line"
    echo "$out" | grep -E '^(VIOLATION|BROKEN|INCOMPLETE|  harness|load|unsupported|panic)' | cut -c1-300 | sort | uniq -c | sort -rn | head -6
    python3 - <<PY
import json
try:
    c=json.load(open('/tmp/bn_ev_$name/$id.json'))['coverage']
    for u in (c.get('undischarged') or [])[:6]: print('   UNDIS', u[:260])
except Exception as e: print('   (no evidence)', e)
PY
  else
    echo "$name $id ok"
  fi
done
git -C /repo worktree remove --force $wt; rm -rf /tmp/bn_ev_$name
