package main

import (
	"fmt"
	"go/types"

	"golang.org/x/tools/go/ssa"
)

// Value domain of the executor (see DESIGN 2.2).
//
//	ints:    int64 (concrete) | *Term sort Int
//	bools:   bool | *Term sort Bool
//	float64: F
//	string:  string
//	pointer: *Cell (nil pointer = (*Cell)(nil))
//	struct:  StructV (immutable value) ; storage *StructObj inside a Cell
//	array:   ArrayV ; storage *Backing inside a Cell
//	slice:   SliceV
//	iface:   Iface | nil
//	func:    *ssa.Function | *Closure | *ssa.Builtin | nil
//	map:     *MapV
//	tuple:   Tuple
type Value interface{}

type F struct {
	T *Term // Real
	D *Term // definedness (nil = defined)
}

type Cell struct {
	v     Value
	epoch int
	tag   string
}

type StructObj struct{ f []*Cell }
type StructV []Value
type ArrayV []Value
type Tuple []Value

type Backing struct {
	cells []*Cell
	elem  types.Type
}

type SliceV struct {
	b      *Backing
	off, n int
	c      int
}

type Iface struct {
	t types.Type
	v Value
}

type Closure struct {
	fn    *ssa.Function
	fv    []Value
	calls int
}

type MapV struct {
	m    map[interface{}]Value // keys: string | int64 | bool | *Cell (pointer identity)
	keys []interface{}
}

// rangeIter is the state of a range loop over a map or a string (ssa.Range / ssa.Next).
type rangeIter struct {
	m     *MapV
	keys  []interface{}
	pos   int
	str   string
	isStr bool
}

// ErrObj is the opaque error produced by the fmt.Errorf / errors.New stubs.
type ErrObj struct{ msg string }

// GoPanic is raised (as a Go panic) when the interpreted program panics.
type GoPanic struct {
	Kind string // "index", "nil", "typeassert", "explicit", "divzero", "slice", "budget", "unsupported"
	Msg  string
	Pos  string
	Val  Value // the argument of an explicit panic(v), for recover()
}

func (p *GoPanic) Error() string { return fmt.Sprintf("%s: %s @ %s", p.Kind, p.Msg, p.Pos) }

// abortPath is raised to end the current path without a verdict (infeasible / assume false).
type abortPath struct{ why string }

func isNilValue(v Value) bool {
	switch x := v.(type) {
	case nil:
		return true
	case *Cell:
		return x == nil
	case SliceV:
		return x.b == nil
	case *MapV:
		return x == nil
	case *ChanV:
		return x == nil
	case *Closure:
		return x == nil
	case *ssa.Function:
		return x == nil
	}
	return false
}
