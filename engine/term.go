package main

// Hash-consed SMT term DAG with light algebraic normalisation.
// Sorts: Bool, Int (mathematical; printed as Int or BitVec64), Real.

import (
	"fmt"
	"math/big"
	"sort"
	"strconv"
	"strings"
)

type Sort uint8

const (
	SBool Sort = iota
	SInt
	SReal
)

func (s Sort) String() string {
	switch s {
	case SBool:
		return "Bool"
	case SInt:
		return "Int"
	case SFloat:
		return "(_ FloatingPoint 11 53)"
	}
	return "Real"
}

type Term struct {
	id   int
	op   string // "var" "iconst" "rconst" "bconst" "pinf" "ninf" "uf" or an operator
	sort Sort
	args []*Term
	name string   // var / uf name
	rat  *big.Rat // rconst
	i    int64    // iconst, bconst(0/1)
}

func (t *Term) isConst() bool {
	return t.op == "iconst" || t.op == "rconst" || t.op == "bconst" || t.op == "fconst"
}
func (t *Term) isInf() bool { return t.op == "pinf" || t.op == "ninf" }

type TB struct {
	tab   map[string]*Term
	next  int
	True  *Term
	False *Term
	PInf  *Term
	NInf  *Term
	ufs   map[string]int // uf name -> arity
	fp    bool           // bit-precise float64 layer: float-valued leaves are created with sort SFloat (termfp.go)
}

func NewTB() *TB {
	b := &TB{tab: map[string]*Term{}, ufs: map[string]int{}}
	b.True = b.mk(&Term{op: "bconst", sort: SBool, i: 1}, "b1")
	b.False = b.mk(&Term{op: "bconst", sort: SBool, i: 0}, "b0")
	b.PInf = b.mk(&Term{op: "pinf", sort: SReal}, "pinf")
	b.NInf = b.mk(&Term{op: "ninf", sort: SReal}, "ninf")
	return b
}

func (b *TB) mk(t *Term, key string) *Term {
	if old, ok := b.tab[key]; ok {
		return old
	}
	t.id = b.next
	b.next++
	b.tab[key] = t
	return t
}

func (b *TB) Bool(v bool) *Term {
	if v {
		return b.True
	}
	return b.False
}

func (b *TB) Int(v int64) *Term {
	return b.mk(&Term{op: "iconst", sort: SInt, i: v}, "i"+strconv.FormatInt(v, 10))
}

func (b *TB) Rat(r *big.Rat) *Term {
	return b.mk(&Term{op: "rconst", sort: SReal, rat: new(big.Rat).Set(r)}, "r"+r.String())
}

func (b *TB) RatI(n, d int64) *Term { return b.Rat(big.NewRat(n, d)) }

// Float converts a float64 literal to the shortest decimal that round-trips.
func (b *TB) Float(f float64) *Term {
	if b.fp {
		return b.FConst(f)
	}
	if f > 1.7e308 {
		return b.PInf
	}
	if f < -1.7e308 {
		return b.NInf
	}
	s := strconv.FormatFloat(f, 'g', -1, 64)
	r, ok := new(big.Rat).SetString(s)
	if !ok {
		panic("bad float literal " + s)
	}
	return b.Rat(r)
}

func (b *TB) Var(name string, s Sort) *Term {
	if s == SReal && b.fp {
		s = SFloat
	}
	return b.mk(&Term{op: "var", sort: s, name: name}, "v"+name+":"+s.String())
}

func (b *TB) app(op string, s Sort, args ...*Term) *Term {
	var sb strings.Builder
	sb.WriteString(op)
	for _, a := range args {
		sb.WriteByte(' ')
		sb.WriteString(strconv.Itoa(a.id))
	}
	return b.mk(&Term{op: op, sort: s, args: args}, sb.String())
}

func (b *TB) UF(name string, args ...*Term) *Term {
	if isF(args...) {
		fa := make([]*Term, len(args))
		for i, a := range args {
			fa[i] = b.toF(a)
		}
		return b.app("fuf:"+name, SFloat, fa...)
	}
	b.ufs[name] = len(args)
	var sb strings.Builder
	sb.WriteString("uf:")
	sb.WriteString(name)
	for _, a := range args {
		sb.WriteByte(' ')
		sb.WriteString(strconv.Itoa(a.id))
	}
	return b.mk(&Term{op: "uf", sort: SReal, name: name, args: args}, sb.String())
}

func ord2(x, y *Term) (*Term, *Term) {
	if x.id > y.id {
		return y, x
	}
	return x, y
}

/* ---------- Int ---------- */

func (b *TB) IAdd(x, y *Term) *Term {
	if x.op == "iconst" && y.op == "iconst" {
		return b.Int(x.i + y.i)
	}
	if x.op == "iconst" && x.i == 0 {
		return y
	}
	if y.op == "iconst" && y.i == 0 {
		return x
	}
	// (x + c1) + c2 -> x + (c1+c2)
	if y.op == "iconst" && x.op == "iadd" {
		for k := 0; k < 2; k++ {
			if x.args[k].op == "iconst" {
				return b.IAdd(x.args[1-k], b.Int(x.args[k].i+y.i))
			}
		}
	}
	if x.op == "iconst" && y.op == "iadd" {
		return b.IAdd(y, x)
	}
	x, y = ord2(x, y)
	return b.app("iadd", SInt, x, y)
}

func (b *TB) ISub(x, y *Term) *Term {
	if x.op == "iconst" && y.op == "iconst" {
		return b.Int(x.i - y.i)
	}
	if y.op == "iconst" {
		return b.IAdd(x, b.Int(-y.i))
	}
	if x == y {
		return b.Int(0)
	}
	return b.app("isub", SInt, x, y)
}

func (b *TB) IMul(x, y *Term) *Term {
	if x.op == "iconst" && y.op == "iconst" {
		return b.Int(x.i * y.i)
	}
	for k := 0; k < 2; k++ {
		c, o := x, y
		if k == 1 {
			c, o = y, x
		}
		if c.op == "iconst" {
			if c.i == 0 {
				return c
			}
			if c.i == 1 {
				return o
			}
		}
	}
	x, y = ord2(x, y)
	return b.app("imul", SInt, x, y)
}

func (b *TB) INeg(x *Term) *Term { return b.ISub(b.Int(0), x) }

func (b *TB) ILt(x, y *Term) *Term {
	if x.op == "iconst" && y.op == "iconst" {
		return b.Bool(x.i < y.i)
	}
	if x == y {
		return b.False
	}
	return b.app("ilt", SBool, x, y)
}

func (b *TB) ILe(x, y *Term) *Term {
	if x.op == "iconst" && y.op == "iconst" {
		return b.Bool(x.i <= y.i)
	}
	if x == y {
		return b.True
	}
	return b.app("ile", SBool, x, y)
}

/* ---------- generic ---------- */

func (b *TB) Eq(x, y *Term) *Term {
	if isF(x, y) {
		return b.fcmp("feq", x, y)
	}
	if x == y {
		return b.True
	}
	if x.isConst() && y.isConst() {
		switch x.sort {
		case SInt, SBool:
			return b.Bool(x.i == y.i)
		case SReal:
			return b.Bool(x.rat.Cmp(y.rat) == 0)
		}
	}
	if x.sort == SBool {
		if x == b.True {
			return y
		}
		if y == b.True {
			return x
		}
		if x == b.False {
			return b.Not(y)
		}
		if y == b.False {
			return b.Not(x)
		}
	}
	if x.isInf() || y.isInf() {
		return b.False // the other side is finite by the numeric model
	}
	if x.sort == SReal {
		if d := b.RSub(x, y); d.op == "rconst" {
			return b.Bool(d.rat.Sign() == 0)
		}
	}
	x, y = ord2(x, y)
	return b.app("eq", SBool, x, y)
}

func (b *TB) Not(x *Term) *Term {
	if x == b.True {
		return b.False
	}
	if x == b.False {
		return b.True
	}
	if x.op == "not" {
		return x.args[0]
	}
	return b.app("not", SBool, x)
}

func (b *TB) And(xs ...*Term) *Term {
	var out []*Term
	seen := map[int]bool{}
	var add func(t *Term) bool
	add = func(t *Term) bool {
		if t == b.False {
			return false
		}
		if t == b.True || seen[t.id] {
			return true
		}
		if t.op == "and" {
			for _, a := range t.args {
				if !add(a) {
					return false
				}
			}
			return true
		}
		seen[t.id] = true
		out = append(out, t)
		return true
	}
	for _, x := range xs {
		if x == nil {
			continue
		}
		if !add(x) {
			return b.False
		}
	}
	if len(out) == 0 {
		return b.True
	}
	if len(out) == 1 {
		return out[0]
	}
	sort.Slice(out, func(i, j int) bool { return out[i].id < out[j].id })
	return b.app("and", SBool, out...)
}

func (b *TB) Or(xs ...*Term) *Term {
	var out []*Term
	seen := map[int]bool{}
	for _, x := range xs {
		if x == nil || x == b.False || seen[x.id] {
			continue
		}
		if x == b.True {
			return b.True
		}
		if x.op == "or" {
			for _, a := range x.args {
				if !seen[a.id] {
					seen[a.id] = true
					out = append(out, a)
				}
			}
			continue
		}
		seen[x.id] = true
		out = append(out, x)
	}
	if len(out) == 0 {
		return b.False
	}
	if len(out) == 1 {
		return out[0]
	}
	sort.Slice(out, func(i, j int) bool { return out[i].id < out[j].id })
	return b.app("or", SBool, out...)
}

func (b *TB) Implies(x, y *Term) *Term { return b.Or(b.Not(x), y) }

func (b *TB) Ite(c, x, y *Term) *Term {
	if c == b.True {
		return x
	}
	if c == b.False {
		return y
	}
	if x == y {
		return x
	}
	if isF(x, y) {
		x, y = b.toF(x), b.toF(y)
	}
	if x.sort == SBool {
		if x == b.True && y == b.False {
			return c
		}
		if x == b.False && y == b.True {
			return b.Not(c)
		}
	}
	return b.app("ite", x.sort, c, x, y)
}

/* ---------- Real ---------- */

var ratZero = big.NewRat(0, 1)
var ratOne = big.NewRat(1, 1)

func isRat(t *Term, r *big.Rat) bool { return t.op == "rconst" && t.rat.Cmp(r) == 0 }

// splitCoef views t as coef * core (core == nil for a pure constant).
func (b *TB) splitCoef(t *Term) (*big.Rat, *Term) {
	if t.op == "rconst" {
		return t.rat, nil
	}
	if t.op == "rmul" && t.args[0].op == "rconst" {
		rest := t.args[1:]
		if len(rest) == 1 {
			return t.args[0].rat, rest[0]
		}
		return t.args[0].rat, b.app("rmul", SReal, rest...)
	}
	return ratOne, t
}

// RAdd builds a flattened, sorted sum with like terms merged (no distribution over products).
func (b *TB) RAdd(x, y *Term) *Term {
	if isF(x, y) {
		return b.fbin("fadd", x, y)
	}
	if x.isInf() || y.isInf() {
		return b.app("radd", SReal, x, y)
	}
	konst := new(big.Rat)
	coefs := map[int]*big.Rat{}
	cores := map[int]*Term{}
	var order []int
	var collect func(t *Term, scale *big.Rat)
	collect = func(t *Term, scale *big.Rat) {
		if t.op == "radd" {
			for _, a := range t.args {
				collect(a, scale)
			}
			return
		}
		c, core := b.splitCoef(t)
		c = new(big.Rat).Mul(c, scale)
		if core == nil {
			konst.Add(konst, c)
			return
		}
		if old, ok := coefs[core.id]; ok {
			old.Add(old, c)
		} else {
			coefs[core.id] = c
			cores[core.id] = core
			order = append(order, core.id)
		}
	}
	collect(x, ratOne)
	collect(y, ratOne)
	sort.Ints(order)
	var args []*Term
	if konst.Sign() != 0 {
		args = append(args, b.Rat(konst))
	}
	for _, id := range order {
		if coefs[id].Sign() == 0 {
			continue
		}
		args = append(args, b.RMul(b.Rat(coefs[id]), cores[id]))
	}
	switch len(args) {
	case 0:
		return b.Rat(ratZero)
	case 1:
		return args[0]
	}
	return b.app("radd", SReal, args...)
}

func (b *TB) RSub(x, y *Term) *Term {
	if isF(x, y) {
		return b.fbin("fsub", x, y)
	}
	if x == y {
		return b.Rat(ratZero)
	}
	return b.RAdd(x, b.RNeg(y))
}

func (b *TB) RNeg(x *Term) *Term {
	if isF(x) {
		return b.fneg(x)
	}
	if x.op == "rconst" {
		return b.Rat(new(big.Rat).Neg(x.rat))
	}
	return b.RMul(b.RatI(-1, 1), x)
}

// RMul builds a flattened, sorted product with the constant coefficient first.
func (b *TB) RMul(x, y *Term) *Term {
	if isF(x, y) {
		return b.fbin("fmul", x, y)
	}
	if x.isInf() || y.isInf() {
		return b.app("rmul", SReal, x, y)
	}
	coef := big.NewRat(1, 1)
	var fs []*Term
	var collect func(t *Term)
	collect = func(t *Term) {
		switch t.op {
		case "rconst":
			coef.Mul(coef, t.rat)
		case "rmul":
			for _, a := range t.args {
				collect(a)
			}
		default:
			fs = append(fs, t)
		}
	}
	collect(x)
	collect(y)
	if coef.Sign() == 0 {
		return b.Rat(ratZero)
	}
	if len(fs) == 0 {
		return b.Rat(coef)
	}
	// cancel f * (1/f) pairs: sound wherever the quotient is defined (tracked separately)
	fs = b.cancelInverses(fs)
	if len(fs) == 0 {
		return b.Rat(coef)
	}
	sort.Slice(fs, func(i, j int) bool { return fs[i].id < fs[j].id })
	if coef.Cmp(ratOne) == 0 {
		if len(fs) == 1 {
			return fs[0]
		}
		return b.app("rmul", SReal, fs...)
	}
	// a constant times a sum distributes (keeps sums flat: c*(a+b) = c*a + c*b)
	if len(fs) == 1 && fs[0].op == "radd" {
		acc := b.Rat(ratZero)
		c := b.Rat(coef)
		for _, a := range fs[0].args {
			acc = b.RAdd(acc, b.RMul(c, a))
		}
		return acc
	}
	args := append([]*Term{b.Rat(coef)}, fs...)
	return b.app("rmul", SReal, args...)
}

func (b *TB) cancelInverses(fs []*Term) []*Term {
	hasInv := false
	for _, f := range fs {
		if f.op == "rinv" {
			hasInv = true
			break
		}
	}
	if !hasInv {
		return fs
	}
	used := make([]bool, len(fs))
	for i, f := range fs {
		if f.op != "rinv" || used[i] {
			continue
		}
		for j, g := range fs {
			if !used[j] && j != i && g == f.args[0] {
				used[i], used[j] = true, true
				break
			}
		}
	}
	var out []*Term
	for i, f := range fs {
		if !used[i] {
			out = append(out, f)
		}
	}
	return out
}

// RInv is the reciprocal; printed as (/ 1.0 y).  Definedness (y != 0) is tracked by the caller.
func (b *TB) RInv(y *Term) *Term {
	if isF(y) {
		return b.fbin("fdiv", b.FConst(1), y)
	}
	switch y.op {
	case "rconst":
		if y.rat.Sign() != 0 {
			return b.Rat(new(big.Rat).Inv(y.rat))
		}
	case "rinv":
		return y.args[0]
	case "rmul":
		acc := b.Rat(ratOne)
		for _, a := range y.args {
			acc = b.RMul(acc, b.RInv(a))
		}
		return acc
	}
	return b.app("rinv", SReal, y)
}

// RDiv value only; definedness (y != 0) is tracked by the caller.
func (b *TB) RDiv(x, y *Term) *Term {
	if isF(x, y) {
		return b.fbin("fdiv", x, y)
	}
	return b.RMul(x, b.RInv(y))
}

func (b *TB) RLt(x, y *Term) *Term {
	if isF(x, y) {
		return b.fcmp("flt", x, y)
	}
	if x.op == "rconst" && y.op == "rconst" {
		return b.Bool(x.rat.Cmp(y.rat) < 0)
	}
	if x == y {
		return b.False
	}
	// infinities against finite values
	if x.op == "ninf" {
		return b.Bool(y.op != "ninf")
	}
	if y.op == "pinf" {
		return b.Bool(x.op != "pinf")
	}
	if x.op == "pinf" || y.op == "ninf" {
		return b.False
	}
	return b.app("rlt", SBool, x, y)
}

func (b *TB) RLe(x, y *Term) *Term {
	if isF(x, y) {
		return b.fcmp("fle", x, y)
	}
	if x.op == "rconst" && y.op == "rconst" {
		return b.Bool(x.rat.Cmp(y.rat) <= 0)
	}
	if x == y {
		return b.True
	}
	if x.op == "ninf" || y.op == "pinf" {
		return b.True
	}
	if x.op == "pinf" || y.op == "ninf" {
		return b.False
	}
	return b.app("rle", SBool, x, y)
}

func (b *TB) ToReal(x *Term) *Term {
	if b.fp {
		return b.I2F(x)
	}
	if x.op == "iconst" {
		return b.RatI(x.i, 1)
	}
	return b.app("to_real", SReal, x)
}

// ToIntTrunc: Go's float->int conversion truncates toward zero.
func (b *TB) ToIntTrunc(x *Term) *Term {
	if isF(x) {
		return b.F2I(x)
	}
	if x.op == "rconst" {
		q := new(big.Int).Quo(x.rat.Num(), x.rat.Denom()) // truncated
		return b.Int(q.Int64())
	}
	if x.op == "to_real" {
		return x.args[0]
	}
	// an integer-valued expression (sums / products / ite over integer constants and converted
	// integers, e.g. a count of 0/1 indicators) is converted structurally: the query stays linear
	// integer arithmetic instead of mixing to_int with real ite terms
	if b.intValued(x, 0) {
		return b.asInt(x)
	}
	fl := b.app("to_int", SInt, x)
	nfl := b.INeg(b.app("to_int", SInt, b.RNeg(x)))
	return b.Ite(b.RLe(b.Rat(ratZero), x), fl, nfl)
}

func (b *TB) intValued(t *Term, depth int) bool {
	if depth > 64 {
		return false
	}
	switch t.op {
	case "rconst":
		return t.rat.IsInt() && t.rat.Num().IsInt64()
	case "to_real":
		return true
	case "ite":
		return b.intValued(t.args[1], depth+1) && b.intValued(t.args[2], depth+1)
	case "radd", "rmul":
		if len(t.args) > 4096 {
			return false
		}
		for _, a := range t.args {
			if !b.intValued(a, depth+1) {
				return false
			}
		}
		return true
	}
	return false
}

func (b *TB) asInt(t *Term) *Term {
	switch t.op {
	case "rconst":
		return b.Int(t.rat.Num().Int64())
	case "to_real":
		return t.args[0]
	case "ite":
		return b.Ite(t.args[0], b.asInt(t.args[1]), b.asInt(t.args[2]))
	case "radd":
		acc := b.asInt(t.args[0])
		for _, a := range t.args[1:] {
			acc = b.IAdd(acc, b.asInt(a))
		}
		return acc
	case "rmul":
		acc := b.asInt(t.args[0])
		for _, a := range t.args[1:] {
			acc = b.IMul(acc, b.asInt(a))
		}
		return acc
	}
	panic("asInt: not integer-valued: " + t.op)
}

/* ---------- printing ---------- */

var opSMT = map[string]string{
	"iadd": "+", "isub": "-", "imul": "*", "ilt": "<", "ile": "<=",
	"radd": "+", "rsub": "-", "rmul": "*", "rdiv": "/", "rinv": "/1", "rlt": "<", "rle": "<=",
	"eq": "=", "not": "not", "and": "and", "or": "or", "ite": "ite",
	"to_real": "to_real", "to_int": "to_int",
}

var opBV = map[string]string{
	"iadd": "bvadd", "isub": "bvsub", "imul": "bvmul", "ilt": "bvslt", "ile": "bvsle",
}

func ratSMT(r *big.Rat) string {
	neg := r.Sign() < 0
	a := new(big.Rat).Abs(r)
	var s string
	if a.IsInt() {
		s = a.Num().String() + ".0"
	} else {
		s = "(/ " + a.Num().String() + ".0 " + a.Denom().String() + ".0)"
	}
	if neg {
		return "(- " + s + ")"
	}
	return s
}

func intSMT(v int64, bv bool) string {
	if bv {
		return fmt.Sprintf("#x%016x", uint64(v))
	}
	if v < 0 {
		if v == -v { // MinInt64
			return "(- 9223372036854775808)"
		}
		return "(- " + strconv.FormatInt(-v, 10) + ")"
	}
	return strconv.FormatInt(v, 10)
}

func sortSMT(s Sort, bv bool) string {
	if s == SInt && bv {
		return "(_ BitVec 64)"
	}
	return s.String()
}

func smtName(t *Term) string {
	switch t.op {
	case "var":
		return "|" + t.name + "|"
	case "bconst":
		if t.i == 1 {
			return "true"
		}
		return "false"
	}
	return "n" + strconv.Itoa(t.id)
}

// leafSMT returns the inline text for leaves, "" for nodes that need a definition.
func leafSMT(t *Term, bv bool) string {
	switch t.op {
	case "var", "bconst":
		return smtName(t)
	case "iconst":
		return intSMT(t.i, bv)
	case "rconst":
		return ratSMT(t.rat)
	case "fconst":
		return fconstSMT(t)
	}
	return ""
}

func refSMT(t *Term, bv bool) string {
	if s := leafSMT(t, bv); s != "" {
		return s
	}
	return smtName(t)
}

func bodySMT(t *Term, bv bool) string {
	var sb strings.Builder
	if t.op == "rinv" {
		return "(/ 1.0 " + refSMT(t.args[0], bv) + ")"
	}
	sb.WriteByte('(')
	if t.op == "uf" {
		sb.WriteString("uf_" + t.name)
	} else if strings.HasPrefix(t.op, "fuf:") {
		sb.WriteString("fuf_" + t.op[4:])
	} else if o, ok := opFP[t.op]; ok {
		sb.WriteString(o)
	} else {
		op, ok := opSMT[t.op]
		if bv {
			if o2, ok2 := opBV[t.op]; ok2 {
				op, ok = o2, true
			}
		}
		if !ok {
			op = "ERROR_" + t.op
		}
		sb.WriteString(op)
	}
	for _, a := range t.args {
		sb.WriteByte(' ')
		sb.WriteString(refSMT(a, bv))
	}
	sb.WriteByte(')')
	return sb.String()
}

// String renders a term as a tree, truncated to a character budget (DAGs can be exponential as trees).
func (t *Term) String() string {
	var sb strings.Builder
	budget := 400
	t.render(&sb, &budget)
	if budget <= 0 {
		sb.WriteString("...")
	}
	return sb.String()
}

func (t *Term) render(sb *strings.Builder, budget *int) {
	if *budget <= 0 {
		return
	}
	if s := leafSMT(t, false); s != "" {
		sb.WriteString(s)
		*budget -= len(s)
		return
	}
	if t.isInf() {
		sb.WriteString(t.op)
		*budget -= 4
		return
	}
	sb.WriteByte('(')
	if t.op == "uf" {
		sb.WriteString(t.name)
	} else if o, ok := opSMT[t.op]; ok {
		sb.WriteString(o)
	} else {
		sb.WriteString(t.op)
	}
	*budget -= 4
	for _, a := range t.args {
		if *budget <= 0 {
			break
		}
		sb.WriteByte(' ')
		a.render(sb, budget)
	}
	sb.WriteByte(')')
}

func (t *Term) Short() string { return t.String() }
