package main

// Check driver: work items -> parallel symbolic exploration -> known-finding attribution
// (deviant oracle) -> native replay -> evidence + VIOLATION / KNOWN-FINDING lines.

import (
	"encoding/json"
	"fmt"
	"math/big"
	"os"
	"os/exec"
	"path/filepath"
	"regexp"
	"sort"
	"strconv"
	"strings"
	"sync"
	"time"

	"golang.org/x/tools/go/ssa"
)

type Item struct {
	P map[string]int64
	S map[string]string
}

func (it Item) String() string {
	var parts []string
	for k, v := range it.S {
		parts = append(parts, k+"="+v)
	}
	for k, v := range it.P {
		parts = append(parts, k+"="+strconv.FormatInt(v, 10))
	}
	sort.Strings(parts)
	return strings.Join(parts, " ")
}

type Harness struct {
	Name  string // C06_slice
	Pkg   string // relative import path inside qeep's module, e.g. "zzh"
	Func  string // H_C06_slice
	Items func(tier string) []Item
	Reach []string // labels that must each be reached by at least one path
	BV    bool     // integers as 64-bit bit-vectors (wrap-around), else mathematical Int
	FP    bool     // float64 as IEEE-754 binary64 (bit-precise, implies BV), else exact reals
	What  string   // one line for evidence
}

type Check struct {
	ID                string
	Level             string
	Harnesses         []Harness
	Assumptions       []string
	Outside           string
	Explanation       string
	Race              bool // build the native replay binary with the race detector
	ThoroughTimeoutMs int  // per-query solver budget in the thorough tier (default 60 s)
}

type task struct {
	h     int
	item  int
	trail []int
}

type violRec struct {
	H      int
	Item   int
	V      Violation
	Reach  []string
	Notes  []string
	Decs   []string
	Status string // confirmed | known:<key> | unconfirmed
	Replay string
}

type hStats struct {
	Paths, Aborted, Obl, Dis, Syn int
	Steps                         int64
	Reach                         map[string]int
	Undis                         []string
	Samples                       []map[string]interface{}
	Items                         int
	samplesWithQuery              int
	valModels                     []valModel
}

type valModel struct {
	item  int
	model map[string]ModelVal
	reach []string
	trail []int
}

type runner struct {
	P             *Program
	chk           *Check
	tier          string
	seed          int64
	items         [][]Item
	fns           []*ssa.Function
	mu            sync.Mutex
	queue         []task
	out           int // outstanding tasks (queued + running)
	cond          *sync.Cond
	stats         []*hStats
	viols         []violRec
	known         []string // known-finding keys listed for this property
	matched       map[string]int
	matchedSample map[string]string
	unmatched     int
	stop          bool
	sstats        SolverStats
	fnSeen        map[string]bool
	ranges        map[string][2]int64
	axioms        int
	deadline      time.Time
	timedOut      bool
	workers       int
	timeoutMs     int
	xchecked      int
	xdisagree     []string
	itemUndis     map[[2]int]int
	itemPaths     map[[2]int]int
	maxItemPaths  int
	itemViols     map[[2]int]int
}

func harnessPkgs(c *Check) []string {
	var out []string
	if c == nil {
		return out
	}
	seen := map[string]bool{}
	for _, h := range c.Harnesses {
		if !seen[h.Pkg] {
			seen[h.Pkg] = true
			out = append(out, h.Pkg)
		}
	}
	return out
}

func verifDir() string { return envOr("QSYM_VERIF", "/verif") }

func runCheck(args []string) int {
	if len(args) >= 3 && args[1] == "--replay" {
		return replayCmd(args[0], args[2])
	}
	if len(args) < 2 {
		fmt.Fprintln(os.Stderr, "usage: qsym check <id> quick|thorough")
		return 2
	}
	id, tier := args[0], args[1]
	if t := os.Getenv("VERIF_TIER"); t == "quick" || t == "thorough" {
		tier = t
	}
	chk := findCheck(id)
	if chk == nil {
		fmt.Fprintln(os.Stderr, "unknown check", id)
		return 2
	}
	seed, _ := strconv.ParseInt(envOr("VERIF_SEED", "1"), 10, 64)
	t0 := time.Now()
	repo := envOr("QSYM_REPO", "/repo")
	P, err := LoadProgram(repo, filepath.Join(verifDir(), "harness"), harnessPkgs(chk)...)
	if err != nil {
		fmt.Fprintln(os.Stderr, "load:", err)
		return 2
	}
	r := &runner{P: P, chk: chk, tier: tier, seed: seed, matched: map[string]int{}, matchedSample: map[string]string{},
		fnSeen: map[string]bool{}, ranges: map[string][2]int64{}, itemUndis: map[[2]int]int{}, itemViols: map[[2]int]int{}, itemPaths: map[[2]int]int{}}
	r.cond = sync.NewCond(&r.mu)
	r.workers, _ = strconv.Atoi(envOr("QSYM_WORKERS", "16"))
	r.timeoutMs = 10000
	budget := 15 * time.Minute
	if tier == "thorough" {
		r.timeoutMs = 60000
		budget = 90 * time.Minute
		if chk.ThoroughTimeoutMs > 0 {
			r.timeoutMs = chk.ThoroughTimeoutMs
		}
	}
	if b := os.Getenv("QSYM_BUDGET_S"); b != "" {
		n, _ := strconv.Atoi(b)
		budget = time.Duration(n) * time.Second
	}
	r.deadline = t0.Add(budget)
	if old, _ := filepath.Glob(filepath.Join(envOr("QSYM_REPLAY_DIR", filepath.Join(verifDir(), "replays")), id+"-*.json")); old != nil {
		for _, f := range old {
			os.Remove(f)
		}
	}
	r.known = knownKeys(id)
	only := os.Getenv("QSYM_ONLY")
	for hi, h := range chk.Harnesses {
		fn := P.Func(qeepMod+"/"+h.Pkg, h.Func)
		if fn == nil {
			fmt.Fprintf(os.Stderr, "harness function %s.%s not found\n", h.Pkg, h.Func)
			return 2
		}
		r.fns = append(r.fns, fn)
		its := h.Items(tier)
		if only != "" && !strings.Contains(h.Name, only) {
			its = nil
		}
		r.items = append(r.items, its)
		r.stats = append(r.stats, &hStats{Reach: map[string]int{}, Items: len(its)})
		for ii := range its {
			r.queue = append(r.queue, task{h: hi, item: ii})
		}
	}
	r.out = len(r.queue)
	var wg sync.WaitGroup
	for w := 0; w < r.workers; w++ {
		wg.Add(1)
		go func() {
			defer wg.Done()
			r.worker()
		}()
	}
	wg.Wait()

	// vacuity: every declared reach label must have been reached
	var broken, inconclusive []string
	for hi, h := range chk.Harnesses {
		if len(r.items[hi]) == 0 || r.stop {
			continue // exploration was cut short (violation limit / budget): reachability is not judged
		}
		unsupported := ""
		for _, u := range r.stats[hi].Undis {
			if strings.Contains(u, "unsupported: ") || strings.Contains(u, "unwinding bound") || strings.Contains(u, "path bound") {
				unsupported = u
				break
			}
		}
		for _, l := range h.Reach {
			if r.stats[hi].Reach[l] == 0 {
				if unsupported != "" {
					// the code under test uses something the encoder cannot translate: the property is not
					// decided for this harness - an honest "don't know", neither a violation nor a broken check
					inconclusive = append(inconclusive, fmt.Sprintf("%s: label %q not reached because of %s", h.Name, l, unsupported))
					continue
				}
				broken = append(broken, fmt.Sprintf("%s: label %q never reached (vacuous harness?)", h.Name, l))
			}
		}
	}

	// native: replay violations, validate sampled path models
	nat := newNative(P, r)
	defer nat.cleanup()
	validated, mismatches := r.validate(nat)
	nviol := r.confirm(nat)

	wall := time.Since(t0).Seconds()
	r.writeEvidence(wall, validated, mismatches, nviol, broken, inconclusive)

	for k, n := range r.matched {
		fmt.Printf("KNOWN-FINDING: property=%s key=%s %s (matched on %d paths, e.g. %s)\n", id, k, knownText(id, k), n, r.matchedSample[k])
	}
	for _, v := range r.viols {
		if v.Status == "confirmed" {
			fmt.Printf("VIOLATION property=%s replay=%s\n", id, v.Replay)
			fmt.Printf("  harness=%s item={%s} %s %q %s at %s\n", chk.Harnesses[v.H].Name, r.items[v.H][v.Item], v.V.Kind, v.V.Label, v.V.Detail, v.V.Pos)
		}
	}
	tot := hStats{}
	und := 0
	for _, s := range r.stats {
		tot.Paths += s.Paths
		tot.Obl += s.Obl
		tot.Dis += s.Dis
		und += len(s.Undis)
	}
	fmt.Printf("check %s %s: paths=%d obligations=%d discharged=%d undischarged=%d violations=%d known=%d unconfirmed=%d validated=%d mismatches=%d solver_queries=%d solver_s=%.1f wall=%.1fs\n",
		id, tier, tot.Paths, tot.Obl, tot.Dis, und, nviol, len(r.matched), r.countStatus("unconfirmed"), validated, mismatches, r.sstats.Queries, r.sstats.Time.Seconds(), wall)
	if nviol > 0 || r.unmatched > 0 {
		// paths that end in a violation do not reach their labels: reachability is judged only on clean runs
		broken = nil
	}
	for _, d := range r.xdisagree {
		broken = append(broken, "solver disagreement: "+d)
	}
	if len(broken) > 0 {
		for _, b := range broken {
			fmt.Println("BROKEN:", b)
		}
		return 2
	}
	for _, m := range inconclusive {
		fmt.Println("INCONCLUSIVE:", m)
	}
	if r.timedOut {
		fmt.Println("INCOMPLETE: budget exhausted before the work list was empty; evidence states what completed")
	}
	if nviol > 0 {
		return 1
	}
	return 0
}

// pathCap bounds the number of paths explored per work item (an unwinding bound of the exploration).
func (r *runner) pathCap() int {
	if r.tier == "thorough" {
		return 2000000
	}
	return 30000
}

func (r *runner) countStatus(s string) int {
	n := 0
	for _, v := range r.viols {
		if v.Status == s {
			n++
		}
	}
	return n
}

func (r *runner) worker() {
	sol := NewSolver(envOr("QSYM_SOLVER", "z3"), r.timeoutMs)
	defer sol.Close()
	ex := NewExec(r.P.prog, sol)
	ex.deadline = r.deadline
	if r.tier == "thorough" {
		ex.xsample = 29
	} else {
		ex.xsample = 97
	}
	var local []task
	for {
		var t task
		if len(local) > 0 {
			t = local[len(local)-1]
			local = local[:len(local)-1]
		} else {
			r.mu.Lock()
			for len(r.queue) == 0 && r.out > 0 && !r.stop {
				r.cond.Wait()
			}
			if r.out == 0 || r.stop {
				r.mu.Unlock()
				break
			}
			t = r.queue[0] // work items in the order of the specification (basic shapes first)
			r.queue = r.queue[1:]
			r.mu.Unlock()
		}
		if time.Now().After(r.deadline) {
			r.mu.Lock()
			r.timedOut = true
			r.stop = true
			r.cond.Broadcast()
			r.mu.Unlock()
			break
		}
		h := r.chk.Harnesses[t.h]
		it := r.items[t.h][t.item]
		r.mu.Lock()
		giveUp := r.itemUndis[[2]int{t.h, t.item}] >= 12
		r.itemPaths[[2]int{t.h, t.item}]++
		if np := r.itemPaths[[2]int{t.h, t.item}]; np > r.maxItemPaths {
			r.maxItemPaths = np
		}
		if !giveUp && r.itemPaths[[2]int{t.h, t.item}] > r.pathCap() {
			// the code under test branches on symbolic data far more than the harness was sized for (e.g.
			// a per-element comparison that is no longer a pure scalar function): the item is abandoned and
			// listed as undischarged instead of eating the whole budget
			giveUp = true
			if r.itemPaths[[2]int{t.h, t.item}] == r.pathCap()+1 {
				r.stats[t.h].Undis = append(r.stats[t.h].Undis, fmt.Sprintf("%s {%s}: path bound: more than %d paths in this work item", r.chk.Harnesses[t.h].Name, r.items[t.h][t.item], r.pathCap()))
			}
		}
		if giveUp {
			// too many inconclusive paths in this work item (unwinding bound / unsupported code): stop
			// spending time on it; it stays listed as undischarged
			r.out--
			if r.out == 0 {
				r.cond.Broadcast()
			}
		}
		r.mu.Unlock()
		if giveUp {
			continue
		}
		ex.params, ex.sparams = it.P, it.S
		ex.known = map[string]bool{}
		ex.bvInts = h.BV || h.FP
		ex.fpMode = h.FP
		res, nt := ex.RunPath(r.fns[t.h], t.trail)
		var vrecs []violRec
		for _, v := range res.Violations {
			vr := violRec{H: t.h, Item: t.item, V: v, Reach: res.Reached, Notes: res.Notes, Decs: res.Decisions}
			// known-finding attribution: re-decide the same path against the deviant oracle
			for _, key := range r.known {
				ex.known = map[string]bool{key: true}
				res2, _ := ex.RunPath(r.fns[t.h], res.Trail)
				ex.known = map[string]bool{}
				if len(res2.Violations) == 0 && res2.Aborted == "" && len(res2.Undischarged) == 0 {
					vr.Status = "known:" + key
					break
				}
			}
			vrecs = append(vrecs, vr)
		}
		// sample a model of a clean path for native validation
		var vm *valModel
		if len(res.Violations) == 0 && res.Aborted == "" {
			st := r.stats[t.h]
			r.mu.Lock()
			need := len(st.valModels) < 6 || (st.Paths%97 == int(r.seed%97) && len(st.valModels) < 24)
			r.mu.Unlock()
			if need {
				// re-run to restore solver state is unnecessary: the path's PC is still asserted
				if m := ex.niceModel(ex.b.True, nil); m != nil {
					vm = &valModel{item: t.item, model: m, reach: res.Reached, trail: res.Trail}
				} else if rr, m := ex.check(nil, ex.wantVars()); rr == "sat" {
					vm = &valModel{item: t.item, model: m, reach: res.Reached, trail: res.Trail}
				}
			}
		}
		for _, n := range nt {
			local = append(local, task{h: t.h, item: t.item, trail: n})
		}
		r.mu.Lock()
		st := r.stats[t.h]
		st.Paths++
		if res.Aborted != "" {
			st.Aborted++
		}
		st.Obl += res.Obligations
		st.Dis += res.Discharged
		st.Syn += res.Syntactic
		st.Steps += res.Steps
		for _, l := range res.Reached {
			st.Reach[l]++
		}
		if len(res.Undischarged) > 0 {
			r.itemUndis[[2]int{t.h, t.item}] += len(res.Undischarged)
		}
		for _, u := range res.Undischarged {
			if len(st.Undis) < 50 {
				st.Undis = append(st.Undis, h.Name+" {"+it.String()+"}: "+u)
			}
		}
		if vm != nil {
			st.valModels = append(st.valModels, *vm)
		}
		if res.Aborted == "" && res.Obligations > 0 && (len(st.Samples) < 3 || (res.SampleQuery != "" && st.samplesWithQuery < 2)) {
			if res.SampleQuery != "" {
				st.samplesWithQuery++
			}
			if len(st.Samples) >= 3 {
				st.Samples = st.Samples[1:]
			}
			st.Samples = append(st.Samples, map[string]interface{}{
				"harness": h.Name, "item": it.String(), "decisions": res.Decisions, "reached": res.Reached,
				"obligations": res.Obligations, "discharged": res.Discharged, "steps": res.Steps, "one_query": res.SampleQuery,
			})
		}
		for _, vr := range vrecs {
			if strings.HasPrefix(vr.Status, "known:") {
				k := strings.TrimPrefix(vr.Status, "known:")
				r.matched[k]++
				if r.matchedSample[k] == "" {
					r.matchedSample[k] = fmt.Sprintf("%s {%s} %s", h.Name, it.String(), vr.V.Label)
				}
				if r.matched[k] <= 3 {
					r.viols = append(r.viols, vr)
				}
			} else {
				r.unmatched++
				// keep a spread of candidates: up to 3 per work item, 80 overall (a benign-looking item must
				// not crowd out the one where the defect manifests)
				key := [2]int{vr.H, vr.Item}
				if r.itemViols[key] < 3 && len(r.viols) < 80 {
					r.itemViols[key]++
					r.viols = append(r.viols, vr)
				}
				if r.unmatched >= 400 {
					r.stop = true
				}
			}
		}
		// share work
		r.out += len(nt) - 1
		if len(local) > 2 && len(r.queue) < r.workers {
			half := len(local) / 2
			r.queue = append(r.queue, local[:half]...)
			local = append([]task(nil), local[half:]...)
		}
		if r.out == 0 || r.stop || len(r.queue) > 0 {
			r.cond.Broadcast()
		}
		r.mu.Unlock()
	}
	r.mu.Lock()
	r.sstats.Queries += sol.Stats.Queries
	r.sstats.Sat += sol.Stats.Sat
	r.sstats.Unsat += sol.Stats.Unsat
	r.sstats.Unknown += sol.Stats.Unknown
	r.sstats.Fallbacks += sol.Stats.Fallbacks
	r.sstats.Errors += sol.Stats.Errors
	r.sstats.Time += sol.Stats.Time
	for fn := range ex.fnSeen {
		if fn.Pkg != nil && strings.HasPrefix(fn.Pkg.Pkg.Path(), qeepMod) && !strings.Contains(fn.Pkg.Pkg.Path(), "/zz") {
			r.fnSeen[fn.String()+" ("+ex.pos2s(fn.Pos())+")"] = true
		}
	}
	for k, v := range ex.rangesAll {
		if o, ok := r.ranges[k]; ok {
			if o[0] < v[0] {
				v[0] = o[0]
			}
			if o[1] > v[1] {
				v[1] = o[1]
			}
		}
		r.ranges[k] = v
	}
	r.axioms += ex.axioms
	r.xchecked += ex.xchecked
	r.xdisagree = append(r.xdisagree, ex.xdisagree...)
	r.mu.Unlock()
}

/* ---------------- known findings ---------------- */

type kfLine struct {
	kind, prop, key, text string
}

func readKF() []kfLine {
	data, err := os.ReadFile(filepath.Join(verifDir(), "KNOWN_FINDINGS.txt"))
	if err != nil {
		return nil
	}
	var out []kfLine
	re := regexp.MustCompile(`^(finding|fixed):\s+property=(\S+)\s+(?:key=(\S+)\s+)?(.*)$`)
	for _, l := range strings.Split(string(data), "\n") {
		m := re.FindStringSubmatch(strings.TrimSpace(l))
		if m != nil {
			out = append(out, kfLine{m[1], m[2], m[3], m[4]})
		}
	}
	return out
}

func knownKeys(id string) []string {
	var ks []string
	for _, l := range readKF() {
		if l.kind == "finding" && l.prop == id && l.key != "" {
			ks = append(ks, l.key)
		}
	}
	return ks
}

func knownText(id, key string) string {
	for _, l := range readKF() {
		if l.kind == "finding" && l.prop == id && l.key == key {
			return l.text
		}
	}
	return ""
}

/* ---------------- native side ---------------- */

type native struct {
	P    *Program
	r    *runner
	dir  string
	bins map[string]string // pkg -> test binary
	err  map[string]error
	runs int
	race bool
}

func newNative(P *Program, r *runner) *native {
	return &native{P: P, r: r, bins: map[string]string{}, err: map[string]error{}}
}

func (n *native) cleanup() {
	if n.dir != "" {
		os.RemoveAll(n.dir)
	}
}

var reHarnessFn = regexp.MustCompile(`(?m)^func (H_[A-Za-z0-9_]+)\(\)`)

func (n *native) binary(pkg string) (string, error) {
	if b, ok := n.bins[pkg]; ok {
		return b, n.err[pkg]
	}
	if n.dir == "" {
		d, err := os.MkdirTemp("", "qsym-native-")
		if err != nil {
			return "", err
		}
		n.dir = d
	}
	repl := map[string]string{}
	hroot := filepath.Join(verifDir(), "harness", "overlay")
	var fns []string
	for vpath := range n.P.overlay {
		rel, _ := filepath.Rel(n.P.repo, vpath)
		repl[vpath] = filepath.Join(hroot, rel)
		if filepath.Dir(rel) == pkg {
			for _, m := range reHarnessFn.FindAllStringSubmatch(string(n.P.overlay[vpath]), -1) {
				fns = append(fns, m[1])
			}
		}
	}
	sort.Strings(fns)
	pkgName := filepath.Base(pkg)
	if sp := n.P.pkgs[qeepMod+"/"+pkg]; sp != nil {
		pkgName = sp.Pkg.Name()
	}
	var sb strings.Builder
	fmt.Fprintf(&sb, "package %s\n\nimport (\n\t\"fmt\"\n\t\"testing\"\n\tvrt \"%s/zzvrt\"\n)\n\n", pkgName, qeepMod)
	sb.WriteString("var zzRegistry = map[string]func(){\n")
	for _, f := range fns {
		fmt.Fprintf(&sb, "\t%q: %s,\n", f, f)
	}
	sb.WriteString("}\n\n")
	sb.WriteString(`func zzRun(f func()) (outcome string) {
	defer func() {
		if r := recover(); r != nil {
			if _, ok := r.(vrt.AssumeFailed); ok {
				outcome = "assume-failed"
				return
			}
			outcome = fmt.Sprintf("panic: %v", r)
		}
	}()
	f()
	if len(vrt.Failures) > 0 {
		return "fail"
	}
	return "pass"
}

func TestVRT(t *testing.T) {
	vrt.Load()
	f := zzRegistry[vrt.R.Harness]
	if f == nil {
		fmt.Println("VRT-RESULT nofunc")
		return
	}
	out := zzRun(f)
	fmt.Printf("VRT-RESULT %s\n", out)
	for _, s := range vrt.Failures {
		fmt.Printf("VRT-FAIL %s\n", s)
	}
	for _, s := range vrt.Reached {
		fmt.Printf("VRT-REACH %s\n", s)
	}
	for _, s := range vrt.Notes {
		fmt.Printf("VRT-NOTE %s\n", s)
	}
}
`)
	testFile := filepath.Join(n.dir, strings.ReplaceAll(pkg, "/", "_")+"_zz_native_test.go")
	os.WriteFile(testFile, []byte(sb.String()), 0o644)
	repl[filepath.Join(n.P.repo, pkg, "zz_native_test.go")] = testFile
	ovb, _ := json.Marshal(map[string]interface{}{"Replace": repl})
	ovFile := filepath.Join(n.dir, strings.ReplaceAll(pkg, "/", "_")+"_overlay.json")
	os.WriteFile(ovFile, ovb, 0o644)
	bin := filepath.Join(n.dir, strings.ReplaceAll(pkg, "/", "_")+".test")
	args := []string{"test", "-c", "-vet=off"}
	if n.r != nil && n.r.chk.Race || n.race {
		args = append(args, "-race")
	}
	args = append(args, "-o", bin, "-overlay", ovFile, "./"+pkg+"/")
	cmd := exec.Command("go", args...)
	cmd.Dir = n.P.repo
	cmd.Env = append(os.Environ(), "GOFLAGS=-mod=mod", "GOPROXY=off", "GOSUMDB=off", "GOTOOLCHAIN=local")
	out, err := cmd.CombinedOutput()
	if err != nil {
		err = fmt.Errorf("native build failed: %v\n%s", err, out)
		fmt.Fprintln(os.Stderr, err)
	}
	n.bins[pkg] = bin
	n.err[pkg] = err
	return bin, err
}

type replayJSON struct {
	Harness string             `json:"harness"`
	Pkg     string             `json:"pkg"`
	Check   string             `json:"check"`
	Params  map[string]int64   `json:"params"`
	SParams map[string]string  `json:"sparams"`
	Ints    map[string]int64   `json:"ints"`
	Bools   map[string]bool    `json:"bools"`
	Floats  map[string]float64 `json:"floats"`
	Exact   map[string]string  `json:"exact_rationals,omitempty"`
	Known   []string           `json:"known"`
	Seed    int                `json:"seed"`
	Label   string             `json:"failing_label,omitempty"`
	Kind    string             `json:"kind,omitempty"`
	Pos     string             `json:"pos,omitempty"`
	Detail  string             `json:"detail,omitempty"`
	Trail   []int              `json:"decision_trail,omitempty"`
	Cmd     string             `json:"replay_cmd,omitempty"`
}

func modelToReplay(h Harness, it Item, model map[string]ModelVal, withFloats bool) replayJSON {
	rj := replayJSON{Harness: h.Func, Pkg: h.Pkg, Params: it.P, SParams: it.S, Ints: map[string]int64{}, Bools: map[string]bool{},
		Floats: map[string]float64{}, Exact: map[string]string{}}
	for name, mv := range model {
		if mv.S == "true" || mv.S == "false" {
			rj.Bools[name] = mv.Bool
			continue
		}
		if mv.Rat == nil {
			continue
		}
		isFloat := strings.Contains(mv.S, ".") || strings.Contains(mv.S, "/") || mv.IsFloat
		if !isFloat && mv.Rat.IsInt() {
			rj.Ints[name] = mv.Rat.Num().Int64()
			continue
		}
		if withFloats {
			f, _ := mv.Rat.Float64()
			rj.Floats[name] = f
			rj.Exact[name] = mv.Rat.RatString()
		}
	}
	return rj
}

type natResult struct {
	outcome string
	fails   []string
	reach   []string
	raw     string
}

func (n *native) run(pkg string, rj replayJSON, file string, timeout time.Duration) (res natResult) {
	bin, err := n.binary(pkg)
	if err != nil {
		return natResult{outcome: "nobuild"}
	}
	if file == "" {
		file = filepath.Join(n.dir, fmt.Sprintf("r%d.json", n.runs))
		data, _ := json.MarshalIndent(rj, "", " ")
		os.WriteFile(file, data, 0o644)
	}
	n.runs++
	cmd := exec.Command(bin, "-test.run", "^TestVRT$", "-test.count=1")
	cmd.Dir = n.dir
	cmd.Env = append(os.Environ(), "VRT_REPLAY="+file)
	done := make(chan []byte, 1)
	go func() {
		out, _ := cmd.CombinedOutput()
		done <- out
	}()
	var out []byte
	select {
	case out = <-done:
	case <-time.After(timeout):
		if cmd.Process != nil {
			cmd.Process.Kill()
		}
		return natResult{outcome: "timeout"}
	}
	res = natResult{raw: string(out), outcome: "crash"}
	defer func() {
		if strings.Contains(res.raw, "DATA RACE") {
			res.outcome = "race"
		}
	}()
	for _, l := range strings.Split(string(out), "\n") {
		switch {
		case strings.HasPrefix(l, "VRT-RESULT "):
			res.outcome = strings.TrimPrefix(l, "VRT-RESULT ")
		case strings.HasPrefix(l, "VRT-FAIL "):
			res.fails = append(res.fails, strings.TrimPrefix(l, "VRT-FAIL "))
		case strings.HasPrefix(l, "VRT-REACH "):
			res.reach = append(res.reach, strings.TrimPrefix(l, "VRT-REACH "))
		}
	}
	return res
}

// natConfirms: the native run of the candidate's input fails.
func natConfirms(res natResult, kind, label string) bool {
	o := res.outcome
	if o == "timeout" || o == "crash" || o == "race" || strings.HasPrefix(o, "panic") {
		return true
	}
	// Any failed assertion of the natively compiled harness is a real failure of the real code at this
	// input, whether or not it is the assertion the solver pointed at: the native harness also carries
	// observers the executor does not have (moment checks of the samplers, timing, the race detector).
	// Failures that a recorded known finding explains never get here (native attribution runs first).
	return o == "fail"
}

func natFailed(o string) bool {
	return o == "fail" || o == "timeout" || o == "crash" || o == "race" || strings.HasPrefix(o, "panic")
}

// validate replays sampled path models natively: the native run must pass and reach the same labels.
func (r *runner) validate(n *native) (validated, mismatches int) {
	if os.Getenv("QSYM_NOVALIDATE") != "" {
		return 0, 0
	}
	for hi, h := range r.chk.Harnesses {
		for _, vm := range r.stats[hi].valModels {
			rj := modelToReplay(h, r.items[hi][vm.item], vm.model, true)
			res := n.run(h.Pkg, rj, "", 60*time.Second)
			if res.outcome == "nobuild" {
				return validated, mismatches
			}
			if res.outcome == "pass" && strings.Join(res.reach, ",") == strings.Join(vm.reach, ",") {
				validated++
			} else if res.outcome == "assume-failed" {
				// rounding moved the input across an assumption boundary: not comparable
			} else {
				mismatches++
				if mismatches <= 5 {
					fmt.Printf("VALIDATION-MISMATCH %s {%s}: native=%s reach=%v symbolic reach=%v fails=%v\n", h.Name, r.items[hi][vm.item], res.outcome, res.reach, vm.reach, res.fails)
				}
			}
		}
	}
	return
}

// confirm replays every unattributed violation natively; returns the number confirmed.
func (r *runner) confirm(n *native) int {
	confirmed := 0
	seen := map[string]bool{}
	tStart := time.Now()
	runs0 := n.runs
	for i := range r.viols {
		v := &r.viols[i]
		if v.Status != "" {
			continue
		}
		if confirmed >= 5 {
			v.Status = "not replayed (5 violations already confirmed)"
			continue
		}
		maxRuns := 20000
		if r.chk.Race {
			maxRuns = 800 // a run under the race detector costs two orders of magnitude more
		}
		if time.Since(tStart) > 3*time.Minute || n.runs-runs0 > maxRuns {
			v.Status = "unconfirmed" // confirmation budget spent (3 min / 20000 native runs; 800 under -race)
			continue
		}
		h := r.chk.Harnesses[v.H]
		it := r.items[v.H][v.Item]
		model := map[string]ModelVal{}
		for k, s := range v.V.Model {
			sx, _ := parseSexp(s)
			model[k] = evalSexp(sx)
		}
		base := modelToReplay(h, it, model, true)
		base.Check, base.Label, base.Kind, base.Pos, base.Detail, base.Trail = r.chk.ID, v.V.Label, v.V.Kind, v.V.Pos, v.V.Detail, v.V.Trail
		try := func(rj replayJSON) bool {
			res := n.run(h.Pkg, rj, "", 120*time.Second)
			return natConfirms(res, v.V.Kind, v.V.Label)
		}
		// A failure that the deviant oracle of a recorded known finding explains is that finding, not a
		// new violation: the symbolic attribution (re-run of the path under vrt.Known) can end
		// inconclusive when the solver gives up; the native replay decides it then.
		explained := ""
		for _, key := range r.known {
			kj := base
			kj.Known = []string{key}
			if res := n.run(h.Pkg, kj, "", 120*time.Second); res.outcome == "pass" {
				explained = key
				break
			}
		}
		if explained != "" {
			v.Status = "known:" + explained
			r.matched[explained]++
			if r.matchedSample[explained] == "" {
				r.matchedSample[explained] = h.Name + " {" + it.String() + "} (native attribution)"
			}
			continue
		}
		ok := try(base)
		final := base
		if !ok {
			// generic-position floats, discrete part unchanged
			maxSeeds := 96
			if v.V.Kind == "assert" && len(base.Floats) == 0 {
				maxSeeds = 8 // nothing float-valued to vary
			}
			for s := 1; s <= maxSeeds && !ok; s++ {
				g := modelToReplay(h, it, model, false)
				g.Check, g.Label, g.Kind, g.Pos, g.Detail, g.Trail = r.chk.ID, v.V.Label, v.V.Kind, v.V.Pos, v.V.Detail, v.V.Trail
				g.Seed = int(r.seed)*100 + s
				if s > 32 {
					g.Seed = -(int(r.seed)*100 + s) // extreme-position stream (values up to +-700)
				}
				if s > 64 {
					g.Seed = 1000000 + int(r.seed)*100 + s // tiny-magnitude stream (values up to +-3e-9)
				}
				if try(g) {
					ok, final = true, g
				}
			}
		}
		if !ok {
			v.Status = "unconfirmed"
			continue
		}
		v.Status = "confirmed"
		sig := h.Name + "|" + v.V.Label + "|" + v.V.Kind
		rdir := envOr("QSYM_REPLAY_DIR", filepath.Join(verifDir(), "replays"))
		os.MkdirAll(rdir, 0o755)
		path := filepath.Join(rdir, fmt.Sprintf("%s-%d.json", r.chk.ID, confirmed))
		final.Cmd = fmt.Sprintf("./check %s --replay %s", r.chk.ID, path)
		data, _ := json.MarshalIndent(final, "", " ")
		os.WriteFile(path, data, 0o644)
		v.Replay = path
		confirmed++
		if seen[sig] {
			// keep the count but do not print duplicates of one failing assertion many times
		}
		seen[sig] = true
	}
	return confirmed
}

func replayCmd(id, file string) int {
	data, err := os.ReadFile(file)
	if err != nil {
		fmt.Fprintln(os.Stderr, err)
		return 2
	}
	var rj replayJSON
	if err := json.Unmarshal(data, &rj); err != nil {
		fmt.Fprintln(os.Stderr, err)
		return 2
	}
	P, err := LoadProgram(envOr("QSYM_REPO", "/repo"), filepath.Join(verifDir(), "harness"), harnessPkgs(findCheck(id))...)
	if err != nil {
		fmt.Fprintln(os.Stderr, "load:", err)
		return 2
	}
	n := newNative(P, nil)
	if c := findCheck(id); c != nil {
		n.race = c.Race
	}
	defer n.cleanup()
	abs, _ := filepath.Abs(file)
	res := n.run(rj.Pkg, rj, abs, 120*time.Second)
	fmt.Printf("replay %s: native outcome=%s\n", file, res.outcome)
	for _, f := range res.fails {
		fmt.Println("  FAIL", f)
	}
	if natFailed(res.outcome) {
		fmt.Printf("VIOLATION property=%s replay=%s\n", id, file)
		return 1
	}
	return 0
}

/* ---------------- evidence ---------------- */

func (r *runner) writeEvidence(wall float64, validated, mismatches, nviol int, broken, inconclusive []string) {
	paths, obl, dis, syn, aborted := 0, 0, 0, 0, 0
	var steps int64
	var samples []interface{}
	var undis []string
	reach := map[string]int{}
	perH := []map[string]interface{}{}
	for hi, s := range r.stats {
		h := r.chk.Harnesses[hi]
		paths += s.Paths
		obl += s.Obl
		dis += s.Dis
		syn += s.Syn
		aborted += s.Aborted
		steps += s.Steps
		for _, x := range s.Samples {
			if len(samples) < 12 {
				samples = append(samples, x)
			}
		}
		undis = append(undis, s.Undis...)
		for k, v := range s.Reach {
			reach[h.Name+":"+k] = v
		}
		perH = append(perH, map[string]interface{}{"harness": h.Name, "what": h.What, "work_items": s.Items, "paths": s.Paths,
			"obligations": s.Obl, "discharged": s.Dis, "int_encoding": map[bool]string{true: "BitVec64", false: "Int"}[h.BV]})
	}
	var fns []string
	for f := range r.fnSeen {
		fns = append(fns, f)
	}
	sort.Strings(fns)
	bounds := map[string]interface{}{}
	for k, v := range r.ranges {
		bounds[k] = fmt.Sprintf("[%d,%d]", v[0], v[1])
	}
	var vl []interface{}
	for _, v := range r.viols {
		vl = append(vl, map[string]interface{}{"harness": r.chk.Harnesses[v.H].Name, "item": r.items[v.H][v.Item].String(),
			"kind": v.V.Kind, "label": v.V.Label, "pos": v.V.Pos, "status": v.Status, "replay": v.Replay, "model": v.V.Model})
	}
	if len(samples) == 0 {
		samples = append(samples, "no path completed")
	}
	cov := map[string]interface{}{
		"states":                        paths,
		"transitions":                   steps,
		"traces_validated_against_impl": validated,
		"samples":                       samples,
		"obligations":                   obl,
		"discharged":                    dis,
		"discharged_syntactically":      syn,
		"undischarged":                  undis,
		"paths_ended_by_assumption":     aborted,
		"unconfirmed_candidates":        r.countStatus("unconfirmed"),
		"validation_mismatches":         mismatches,
		"known_findings_matched":        r.matched,
		"functions_encoded":             fns,
		"bounds":                        bounds,
		"outside_bounds":                r.chk.Outside,
		"harnesses":                     perH,
		"reach_labels":                  reach,
		"axioms_instantiated":           r.axioms,
		"max_paths_in_one_work_item":    r.maxItemPaths,
		"path_bound_per_work_item":      r.pathCap(),
		"solver_queries":                r.sstats.Queries,
		"solver_sat":                    r.sstats.Sat,
		"solver_unsat":                  r.sstats.Unsat,
		"solver_unknown":                r.sstats.Unknown,
		"solver_fallbacks":              r.sstats.Fallbacks,
		"solver_time_s":                 r.sstats.Time.Seconds(),
		"solver_versions":               "z3 4.8.12 (primary, persistent -in, push/pop; nlsat pipeline for non-linear queries); z3 5.1.0 / 4.8.12 one-shot fallback on unknown; bit-precise (FP) harnesses: one fresh process per query, cvc5 1.0 first, then z3 4.8.12 / 5.1.0",
		"cross_checked_with_z3_5.1.0":   r.xchecked,
		"cross_check_disagreements":     r.xdisagree,
		"violations_detail":             vl,
		"budget_exhausted":              r.timedOut,
		"broken":                        broken,
		"inconclusive_harnesses":        inconclusive,
		"explanation":                   explanationOf(r.chk),
		"exhaustive":                    false,
	}
	ev := map[string]interface{}{
		"property_id": r.chk.ID,
		"tier":        r.tier,
		"seed":        r.seed,
		"level":       r.chk.Level,
		"coverage":    cov,
		"assumptions": r.chk.Assumptions,
		"wall_s":      wall,
		"violations":  nviol,
	}
	evDir := envOr("QSYM_EVIDENCE_DIR", filepath.Join(verifDir(), "evidence"))
	os.MkdirAll(evDir, 0o755)
	data, _ := json.MarshalIndent(ev, "", " ")
	os.WriteFile(filepath.Join(evDir, r.chk.ID+".json"), data, 0o644)
}

func explanationOf(c *Check) string {
	if c.Explanation != "" {
		return c.Explanation
	}
	return "Bounded symbolic model checking of the real code: the harness functions listed under 'harnesses' are executed by a go/ssa symbolic executor (regenerated from /repo's current source on this run); shapes, arguments and flags are solver integers / booleans, element values solver reals; every assertion and every Go panic site on a path is an SMT obligation decided by z3 for all values within 'bounds'; counterexamples are replayed against the natively compiled code before being reported."
}

var _ = big.NewRat
