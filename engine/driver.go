package main

func runCheck(args []string) int { return 2 }
