package main

// Check specifications: which harnesses decide which property, and their work items per tier.

func items(ps ...map[string]int64) []Item {
	var out []Item
	for _, p := range ps {
		out = append(out, Item{P: p})
	}
	return out
}

// rankItems: one item per rank lo..hi with the given max dimension size.
func rankItems(lo, hi int, maxdim int64, extra map[string]int64) []Item {
	var out []Item
	for r := lo; r <= hi; r++ {
		p := map[string]int64{"rank": int64(r), "maxdim": maxdim}
		for k, v := range extra {
			p[k] = v
		}
		out = append(out, Item{P: p})
	}
	return out
}

func tiered(quick, thorough func() []Item) func(string) []Item {
	return func(tier string) []Item {
		if tier == "thorough" {
			return thorough()
		}
		return quick()
	}
}

const numericModel = "float64 is modelled as exact real arithmetic plus a definedness predicate (division by zero, log of non-positive, 0^negative); rounding, overflow and NaN payloads are outside the claim"

var allChecks []*Check

func findCheck(id string) *Check {
	for _, c := range allChecks {
		if c.ID == id {
			return c
		}
	}
	return nil
}

func init() {
	allChecks = append(allChecks, &Check{
		ID: "C06", Level: "model_checking",
		Harnesses: []Harness{
			{Name: "C06_slice", Pkg: "zzh", Func: "H_C06_slice", Reach: []string{"accepted", "rejected"},
				What: "Slice vs index-map reference; shape, index length and every From/To are solver integers",
				Items: tiered(func() []Item { return rankItems(0, 2, 3, nil) }, func() []Item { return append(rankItems(0, 3, 3, nil), rankItems(4, 4, 2, nil)...) })},
		},
		Assumptions: []string{"element values are opaque solver reals; the assertions are term identities, hence value-independent"},
		Outside:     "ranks 5-6, dimension sizes above the stated maxdim",
	})
}
