package main

// Check specifications: which harnesses decide which property, and their work items per tier.

func items(ps ...map[string]int64) []Item {
	var out []Item
	for _, p := range ps {
		out = append(out, Item{P: p})
	}
	return out
}

// rankItems: one item per rank lo..hi with the given max dimension size.
func rankItems(lo, hi int, maxdim int64, extra map[string]int64) []Item {
	var out []Item
	for r := lo; r <= hi; r++ {
		p := map[string]int64{"rank": int64(r), "maxdim": maxdim}
		for k, v := range extra {
			p[k] = v
		}
		out = append(out, Item{P: p})
	}
	return out
}

func tiered(quick, thorough func() []Item) func(string) []Item {
	return func(tier string) []Item {
		if tier == "thorough" {
			return thorough()
		}
		return quick()
	}
}

const numericModel = "float64 is modelled as exact real arithmetic plus a definedness predicate (division by zero, log of non-positive, 0^negative); rounding, overflow and NaN payloads are outside the claim"

var allChecks []*Check

func findCheck(id string) *Check {
	for _, c := range allChecks {
		if c.ID == id {
			return c
		}
	}
	return nil
}

func mergeItems(lists ...[]Item) []Item {
	var out []Item
	for _, l := range lists {
		out = append(out, l...)
	}
	return out
}

// withP returns copies of items with extra params set.
func withP(its []Item, extra map[string]int64) []Item {
	var out []Item
	for _, it := range its {
		p := map[string]int64{}
		for k, v := range it.P {
			p[k] = v
		}
		for k, v := range extra {
			p[k] = v
		}
		out = append(out, Item{P: p, S: it.S})
	}
	return out
}

func shapeTier(qlo, qhi int, qd int64, tlo, thi int, td int64, t4 int64, extra map[string]int64) func(string) []Item {
	return func(tier string) []Item {
		if tier == "thorough" {
			its := rankItems(tlo, thi, td, extra)
			if t4 > 0 {
				its = append(its, rankItems(thi+1, thi+1, t4, extra)...)
			}
			return its
		}
		return rankItems(qlo, qhi, qd, extra)
	}
}

func init() {
	h := func(name, what string, reach []string, items func(string) []Item) Harness {
		return Harness{Name: "C06_" + name, Pkg: "zzh", Func: "H_C06_" + name, Reach: reach, What: what, Items: items}
	}
	acc := []string{"accepted"}
	allChecks = append(allChecks, &Check{
		ID: "C06", Level: "model_checking",
		Harnesses: []Harness{
			h("slice", "Slice vs index-map reference; shape, index length and every From/To are solver integers (assumed valid)", acc, shapeTier(0, 2, 3, 0, 3, 3, 2, nil)),
			h("at", "At(every valid multi-index) returns the addressed element; NElems = product of Shape", acc, shapeTier(0, 2, 3, 0, 3, 3, 2, nil)),
			h("patch", "Patch: every source size/position incl. omitted and {0,0} ranges; target/source unchanged; slice-after-patch round trip", acc, shapeTier(0, 2, 3, 0, 3, 3, 0, nil)),
			h("concat", "Concat of 2..3 operands along every dim; slice-after-concat round trip", acc, func(tier string) []Item {
				if tier == "thorough" {
					return mergeItems(withP(rankItems(1, 3, 3, nil), map[string]int64{"operands": 2}), withP(rankItems(1, 3, 2, nil), map[string]int64{"operands": 3}), withP(rankItems(4, 4, 2, nil), map[string]int64{"operands": 2}))
				}
				return mergeItems(withP(rankItems(1, 2, 3, nil), map[string]int64{"operands": 2}), withP(rankItems(1, 2, 2, nil), map[string]int64{"operands": 3}))
			}),
			h("reshape", "Reshape to every factorisation of the element count (target rank 0..maxrank2)", acc, shapeTier(0, 2, 3, 0, 3, 3, 2, map[string]int64{"maxrank2": 4})),
			h("flatten", "Flatten(from) for every from", acc, shapeTier(1, 3, 3, 1, 3, 3, 2, nil)),
			h("squeeze", "Squeeze(dim) for every size-1 dim", acc, shapeTier(1, 3, 3, 1, 3, 3, 2, nil)),
			h("unsqueeze", "UnSqueeze(dim) for every dim 0..rank", acc, shapeTier(0, 3, 3, 0, 3, 3, 2, nil)),
			h("broadcast", "Broadcast to every valid target (new leading dims, size-1 expansion, both)", acc, func(tier string) []Item {
				if tier == "thorough" {
					return mergeItems(rankItems(0, 3, 3, map[string]int64{"maxrank2": 3}), rankItems(0, 4, 2, map[string]int64{"maxrank2": 4}))
				}
				return rankItems(0, 2, 3, map[string]int64{"maxrank2": 3})
			}),
			h("construct", "Full/Zeros/Ones/TensorOf hold exactly the requested values", []string{"done"}, shapeTier(0, 3, 3, 0, 4, 3, 0, nil)),
			h("eye", "Eye(n) is the identity matrix", []string{"done"}, func(string) []Item { return items(map[string]int64{"maxn": 5}) }),
		},
		Assumptions: []string{"element values are opaque solver reals; the assertions are term identities, hence value-independent",
			"arguments are assumed valid per DESIGN Appendix A (rejection of invalid arguments is C09)"},
		Outside: "ranks 5-6 (rank 4 only with sizes <= 2), dimension sizes above 3, Concat of more than 3 operands",
	})
}
