package main

// Check specifications: which harnesses decide which property, and their work items per tier.

func items(ps ...map[string]int64) []Item {
	var out []Item
	for _, p := range ps {
		out = append(out, Item{P: p})
	}
	return out
}

// rankItems: one item per rank lo..hi with the given max dimension size.
func rankItems(lo, hi int, maxdim int64, extra map[string]int64) []Item {
	var out []Item
	for r := lo; r <= hi; r++ {
		p := map[string]int64{"rank": int64(r), "maxdim": maxdim}
		for k, v := range extra {
			p[k] = v
		}
		out = append(out, Item{P: p})
	}
	return out
}

func tiered(quick, thorough func() []Item) func(string) []Item {
	return func(tier string) []Item {
		if tier == "thorough" {
			return thorough()
		}
		return quick()
	}
}

const numericModel = "float64 is modelled as exact real arithmetic plus a definedness predicate (division by zero, log of non-positive, 0^negative); rounding, overflow and NaN payloads are outside the claim"

var allChecks []*Check

func findCheck(id string) *Check {
	for _, c := range allChecks {
		if c.ID == id {
			return c
		}
	}
	return nil
}

func mergeItems(lists ...[]Item) []Item {
	var out []Item
	for _, l := range lists {
		out = append(out, l...)
	}
	return out
}

// withP returns copies of items with extra params set.
func withP(its []Item, extra map[string]int64) []Item {
	var out []Item
	for _, it := range its {
		p := map[string]int64{}
		for k, v := range it.P {
			p[k] = v
		}
		for k, v := range extra {
			p[k] = v
		}
		out = append(out, Item{P: p, S: it.S})
	}
	return out
}

func shapeTier(qlo, qhi int, qd int64, tlo, thi int, td int64, t4 int64, extra map[string]int64) func(string) []Item {
	return func(tier string) []Item {
		if tier == "thorough" {
			its := rankItems(tlo, thi, td, extra)
			if t4 > 0 {
				its = append(its, rankItems(thi+1, thi+1, t4, extra)...)
			}
			return its
		}
		return rankItems(qlo, qhi, qd, extra)
	}
}

func init() {
	h := func(name, what string, reach []string, items func(string) []Item) Harness {
		return Harness{Name: "C06_" + name, Pkg: "zzh", Func: "H_C06_" + name, Reach: reach, What: what, Items: items}
	}
	acc := []string{"accepted"}
	allChecks = append(allChecks, &Check{
		ID: "C06", Level: "model_checking",
		Harnesses: []Harness{
			h("slice", "Slice vs index-map reference; shape, index length and every From/To are solver integers (assumed valid)", acc, shapeTier(0, 2, 3, 0, 3, 3, 2, nil)),
			h("at", "At(every valid multi-index) returns the addressed element; NElems = product of Shape", acc, shapeTier(0, 2, 3, 0, 3, 3, 2, nil)),
			h("patch", "Patch: every source size/position incl. omitted and {0,0} ranges; target/source unchanged; slice-after-patch round trip", acc, shapeTier(0, 2, 3, 0, 3, 3, 0, nil)),
			h("concat", "Concat of 2..3 operands along every dim; slice-after-concat round trip", acc, func(tier string) []Item {
				if tier == "thorough" {
					return mergeItems(withP(rankItems(1, 3, 3, nil), map[string]int64{"operands": 2}), withP(rankItems(1, 3, 2, nil), map[string]int64{"operands": 3}), withP(rankItems(4, 4, 2, nil), map[string]int64{"operands": 2}))
				}
				return mergeItems(withP(rankItems(1, 2, 3, nil), map[string]int64{"operands": 2}), withP(rankItems(1, 2, 2, nil), map[string]int64{"operands": 3}))
			}),
			h("reshape", "Reshape to every factorisation of the element count (target rank 0..maxrank2)", acc, shapeTier(0, 2, 3, 0, 3, 3, 2, map[string]int64{"maxrank2": 4})),
			h("flatten", "Flatten(from) for every from", acc, shapeTier(1, 3, 3, 1, 3, 3, 2, nil)),
			h("squeeze", "Squeeze(dim) for every size-1 dim", acc, shapeTier(1, 3, 3, 1, 3, 3, 2, nil)),
			h("unsqueeze", "UnSqueeze(dim) for every dim 0..rank", acc, shapeTier(0, 3, 3, 0, 3, 3, 2, nil)),
			h("broadcast", "Broadcast to every valid target (new leading dims, size-1 expansion, both)", acc, func(tier string) []Item {
				if tier == "thorough" {
					return mergeItems(rankItems(0, 3, 3, map[string]int64{"maxrank2": 3}), rankItems(0, 4, 2, map[string]int64{"maxrank2": 4}))
				}
				return rankItems(0, 2, 3, map[string]int64{"maxrank2": 3})
			}),
			h("construct", "Full/Zeros/Ones/TensorOf hold exactly the requested values", []string{"done"}, shapeTier(0, 3, 3, 0, 4, 3, 0, nil)),
			h("eye", "Eye(n) is the identity matrix", []string{"done"}, func(string) []Item { return items(map[string]int64{"maxn": 5}) }),
			h("nelems", "NElems = product of Shape, and Shape = the defined shape, for the result of every kind of operation", []string{"done"}, func(string) []Item { return opShapeItems() }),
		},
		Assumptions: []string{"element values are opaque solver reals; the assertions are term identities, hence value-independent",
			"arguments are assumed valid per DESIGN Appendix A (rejection of invalid arguments is C09)"},
		Outside: "ranks 5-6 (rank 4 only with sizes <= 2), dimension sizes above 3, Concat of more than 3 operands",
	})
}

func sItems(key string, vals []string, base []Item) []Item {
	var out []Item
	for _, v := range vals {
		for _, it := range base {
			s := map[string]string{key: v}
			for k, x := range it.S {
				s[k] = x
			}
			out = append(out, Item{P: it.P, S: s})
		}
	}
	return out
}

func pairItems(lo, hi int, maxdim int64) []Item {
	var out []Item
	for a := lo; a <= hi; a++ {
		for b := lo; b <= hi; b++ {
			out = append(out, Item{P: map[string]int64{"ra": int64(a), "rb": int64(b), "maxdim": maxdim}})
		}
	}
	return out
}

var unaryOps = []string{"Exp", "Log", "Sin", "Cos", "Tan", "Sinh", "Cosh", "Tanh"}

func unaryItems(lo, hi int, maxdim int64) []Item {
	base := rankItems(lo, hi, maxdim, map[string]int64{"cmode": 0})
	out := sItems("op", unaryOps, base)
	for cm := int64(0); cm <= 7; cm++ {
		out = append(out, sItems("op", []string{"Pow"}, rankItems(lo, hi, maxdim, map[string]int64{"cmode": cm}))...)
	}
	for _, cm := range []int64{0, 1, 4} {
		out = append(out, sItems("op", []string{"Scale"}, rankItems(lo, hi, maxdim, map[string]int64{"cmode": cm}))...)
	}
	return out
}

func init() {
	allChecks = append(allChecks, &Check{
		ID: "C03", Level: "model_checking",
		Harnesses: []Harness{
			{Name: "C03_unary", Pkg: "zzh", Func: "H_C03_unary", Reach: []string{"done"},
				What:  "Scale/Pow/Exp/Log/trig/hyperbolic: every element is the scalar function of the element at the same position (Pow: symbolic exponent and -2,-1,0,1/2,1,2,3)",
				Items: tiered(func() []Item { return unaryItems(0, 2, 2) }, func() []Item { return mergeItems(unaryItems(0, 3, 3), unaryItems(4, 6, 2)) })},
			{Name: "C03_binary", Pkg: "zzh", Func: "H_C03_binary", Reach: []string{"done"},
				What: "Add/Sub/Mul/Div over every broadcast-compatible shape pair vs NumPy index map; equal to broadcasting explicitly first",
				Items: tiered(func() []Item {
					return mergeItems(sItems("op", []string{"Add", "Sub", "Mul", "Div"}, pairItems(0, 2, 2)), sItems("op", []string{"Add", "Mul"}, pairItems(3, 3, 2)))
				},
					func() []Item {
						hi := []Item{{P: map[string]int64{"ra": 5, "rb": 5, "maxdim": 2}}, {P: map[string]int64{"ra": 6, "rb": 6, "maxdim": 2}}, {P: map[string]int64{"ra": 6, "rb": 2, "maxdim": 2}}, {P: map[string]int64{"ra": 1, "rb": 6, "maxdim": 2}}}
						return mergeItems(sItems("op", []string{"Add", "Sub", "Mul", "Div"}, pairItems(0, 3, 3)), sItems("op", []string{"Add", "Div"}, pairItems(4, 4, 2)), sItems("op", []string{"Sub", "Mul"}, hi))
					})},
			{Name: "C03_cmp", Pkg: "zzh", Func: "H_C03_cmp", Reach: []string{"done"},
				What: "six comparisons yield exactly the 0/1 indicator; ElMax/ElMin; Equals iff all positions equal (pairs identical or apart by > 1e-200)",
				Items: tiered(func() []Item {
					return sItems("op", []string{"Eq", "Ne", "Gt", "Ge", "Lt", "Le", "ElMax", "ElMin", "Equals"}, rankItems(0, 2, 2, nil))
				}, func() []Item {
					return sItems("op", []string{"Eq", "Ne", "Gt", "Ge", "Lt", "Le", "ElMax", "ElMin", "Equals"}, mergeItems(rankItems(0, 3, 3, nil), rankItems(4, 6, 2, nil)))
				})},
		},
		Assumptions: []string{numericModel,
			"math.Exp/Log/Sin/... are uninterpreted functions: which function is applied to which element is checked, not the function's numerics",
			"Eq/Ne/Equals: operand pairs are identical or differ by more than 1e-200 (as the property states)"},
		Outside: "sizes above 3 (above 2 for ranks 4-6); rank 5-6 binary broadcasting only for the listed rank pairs; bit-level float behaviour (signed zero, NaN, overflow, rounding of the arithmetic operations) except what C03_fp decides; operands between 10 and 8192 elements, and above 9216",
	})
}

func pairItemsLo(lo, hi int, maxdim int64) []Item {
	var out []Item
	for a := lo; a <= hi; a++ {
		for b := lo; b <= hi; b++ {
			out = append(out, Item{P: map[string]int64{"ra": int64(a), "rb": int64(b), "maxdim": maxdim}})
		}
	}
	return out
}

var redOps = []string{"Sum", "Max", "Min", "Avg", "Mean", "Var", "Std"}

func init() {
	allChecks = append(allChecks, &Check{
		ID: "C04", Level: "model_checking",
		Harnesses: []Harness{
			{Name: "C04_matmul", Pkg: "zzh", Func: "H_C04_matmul", Reach: []string{"done"},
				What:  "MatMul vs explicit sum of products with broadcast batch indexing; every m,n,k and batch-shape pair is solver-chosen",
				Items: tiered(func() []Item { return pairItemsLo(2, 3, 2) }, func() []Item { return mergeItems(pairItemsLo(2, 4, 2), pairItemsLo(2, 3, 3), pairItemsLo(5, 5, 2)) })},
			{Name: "C04_dot", Pkg: "zzh", Func: "H_C04_dot", Reach: []string{"done"},
				What:  "Dot contracts the last dimension after broadcasting the leading ones",
				Items: tiered(func() []Item { return pairItemsLo(1, 3, 2) }, func() []Item { return mergeItems(pairItemsLo(1, 4, 2), pairItemsLo(1, 3, 3)) })},
			{Name: "C04_transpose", Pkg: "zzh", Func: "H_C04_transpose", Reach: []string{"done"},
				What:  "Transpose swaps the last two dimensions",
				Items: tiered(func() []Item { return mergeItems(rankItems(2, 3, 3, nil), rankItems(4, 4, 2, nil)) }, func() []Item { return mergeItems(rankItems(2, 4, 3, nil), rankItems(5, 5, 2, nil)) })},
			{Name: "C04_identities", Pkg: "zzh", Func: "H_C04_identities", Reach: []string{"done"},
				What: "A.I = A and (A.B)^T = B^T.A^T as polynomial identities over symbolic matrices",
				Items: tiered(func() []Item {
					return items(map[string]int64{"ra": 2, "maxdim": 3}, map[string]int64{"ra": 3, "maxdim": 2})
				},
					func() []Item {
						return items(map[string]int64{"ra": 2, "maxdim": 4}, map[string]int64{"ra": 3, "maxdim": 3}, map[string]int64{"ra": 4, "maxdim": 2})
					})},
		},
		Assumptions: []string{numericModel},
		Outside:     "rank 6 (rank 5 only with sizes <= 2), sizes above 3 (4 for plain matrices in the identities)",
	})
	allChecks = append(allChecks, &Check{
		ID: "C05", Level: "model_checking",
		Harnesses: []Harness{
			{Name: "C05_full", Pkg: "zzh", Func: "H_C05_full", Reach: []string{"done"},
				What: "Sum/Max/Min/Avg/Mean/Var/Std over all elements; extrema by the bound-and-attained specification, Std by r>=0 and r^2=Var",
				Items: tiered(func() []Item { return sItems("op", redOps, rankItems(0, 2, 3, nil)) }, func() []Item {
					return sItems("op", redOps, mergeItems(rankItems(0, 3, 3, nil), rankItems(4, 6, 2, nil)))
				})},
			{Name: "C05_along", Pkg: "zzh", Func: "H_C05_along", Reach: []string{"done"},
				What: "the seven Along forms: shape with dim removed, every element the statistic of its fibre",
				Items: tiered(func() []Item { return sItems("op", redOps, rankItems(1, 2, 3, nil)) }, func() []Item {
					return sItems("op", redOps, mergeItems(rankItems(1, 3, 3, nil), rankItems(4, 6, 2, nil)))
				})},
		},
		Assumptions: []string{numericModel, "math.Sqrt is an uninterpreted function with the contract sqrt(v)>=0, sqrt(v)^2=v for v>=0"},
		Outside:     "ranks 5-6 (rank 4 only with sizes <= 2), sizes above 3",
	})
}

func c02Unary(lo, hi int, maxdim int64) []Item { return unaryItems(lo, hi, maxdim) }

func init() {
	binOps := []string{"Add", "Sub", "Mul", "Div", "ElMax", "ElMin"}
	allChecks = append(allChecks, &Check{
		ID: "C02", Level: "model_checking",
		Harnesses: []Harness{
			{Name: "C02_unary", Pkg: "zzh", Func: "H_C02_unary", Reach: []string{"done"},
				What:  "Scale/Pow/Exp/Log/Sin/Cos/Tan/Sinh/Cosh/Tanh: gradient = upstream * derivative (Pow: symbolic exponent with base>0; exponents -2,-1,0,1/2,1,2,3 with base 0 included for 0,1,2,3)",
				Items: tiered(func() []Item { return c02Unary(0, 2, 2) }, func() []Item { return mergeItems(c02Unary(0, 3, 3), c02Unary(4, 4, 2)) })},
			{Name: "C02_binary", Pkg: "zzh", Func: "H_C02_binary", Reach: []string{"done"},
				What: "Add/Sub/Mul/Div/ElMax/ElMin on same-shape operands, every tracked subset",
				Items: tiered(func() []Item { return sItems("op", binOps, rankItems(0, 2, 2, nil)) }, func() []Item {
					return sItems("op", binOps, mergeItems(rankItems(0, 3, 3, nil), rankItems(4, 4, 2, nil)))
				})},
			{Name: "C02_shape", Pkg: "zzh", Func: "H_C02_shape", Reach: []string{"done"},
				What: "Transpose/Reshape/UnSqueeze/Squeeze/Flatten: gradient is the inverse element permutation of the upstream",
				Items: func(tier string) []Item {
					hi, d := 3, int64(2)
					if tier == "thorough" {
						hi, d = 4, 3
					}
					return mergeItems(
						sItems("op", []string{"Transpose"}, rankItems(2, hi, d, nil)),
						sItems("op", []string{"Reshape"}, rankItems(0, hi-1, d, map[string]int64{"maxrank2": 3})),
						sItems("op", []string{"UnSqueeze"}, rankItems(0, hi-1, d, nil)),
						sItems("op", []string{"Squeeze", "Flatten"}, rankItems(1, hi, d, nil)))
				}},
			{Name: "C02_slice", Pkg: "zzh", Func: "H_C02_slice", Reach: []string{"done"},
				What:  "Slice with explicit / omitted / {0,0} ranges: gradient is the upstream scattered into zeros",
				Items: shapeTier(0, 2, 3, 0, 3, 3, 0, nil)},
			{Name: "C02_patch", Pkg: "zzh", Func: "H_C02_patch", Reach: []string{"done"},
				What:  "Patch with partial indexes: target gets upstream with the block zeroed, source gets the block",
				Items: shapeTier(0, 2, 3, 0, 3, 2, 0, nil)},
			{Name: "C02_concat", Pkg: "zzh", Func: "H_C02_concat", Reach: []string{"done"},
				What: "Concat of 2..3 operands: each operand receives its slice of the upstream",
				Items: func(tier string) []Item {
					if tier == "thorough" {
						return mergeItems(withP(rankItems(1, 3, 2, nil), map[string]int64{"operands": 2}), withP(rankItems(1, 2, 2, nil), map[string]int64{"operands": 3}))
					}
					return mergeItems(withP(rankItems(1, 2, 2, nil), map[string]int64{"operands": 2}), withP(rankItems(1, 1, 2, nil), map[string]int64{"operands": 3}))
				}},
			{Name: "C02_reduce", Pkg: "zzh", Func: "H_C02_reduce", Reach: []string{"done"},
				What: "Sum/Max/Min/Avg/Mean/Var/Std Along every dim (extrema: fibre elements pairwise apart by > 1e-200; Std: variance > 0)",
				Items: tiered(func() []Item { return sItems("op", redOps, rankItems(1, 2, 2, nil)) }, func() []Item {
					return sItems("op", redOps, mergeItems(rankItems(1, 3, 3, nil), rankItems(4, 4, 2, nil)))
				})},
			{Name: "C02_dot", Pkg: "zzh", Func: "H_C02_dot", Reach: []string{"done"},
				What:  "Dot on equal shapes (no expansion), ranks 1..",
				Items: shapeTier(1, 2, 2, 1, 3, 3, 2, nil)},
			{Name: "C02_matmul", Pkg: "zzh", Func: "H_C02_matmul", Reach: []string{"done"},
				What:  "MatMul with equal batch shapes: dA = G.B^T, dB = A^T.G",
				Items: shapeTier(2, 3, 2, 2, 3, 3, 2, nil)},
		},
		Assumptions: []string{numericModel,
			"operands are assumed inside the differentiability domain: Log x>0, Div b!=0, Tan cos x!=0, extrema and ElMax/ElMin operands apart by > 1e-200, Std variance>0, Pow with symbolic exponent base>0, exponents -1,-2 base!=0, exponent 1/2 base>0",
			"finite = defined in the real model (no division by zero / 0^negative / log of non-positive on the path)"},
		Outside: "rank 5 (rank 4 only with sizes <= 2), sizes above 3, Pow exponents other than the listed ones when the base may be <= 0",
	})
}

func init() {
	allChecks = append(allChecks, &Check{
		ID: "C07", Level: "model_checking",
		Harnesses: []Harness{
			{Name: "C07_explicit", Pkg: "zzh", Func: "H_C07_explicit", Reach: []string{"done"},
				What: "x.Broadcast(target) for every valid target (new leading dims, size-1 expansion, both, factor 1): gradient = sum of the upstream over the copies",
				Items: func(tier string) []Item {
					if tier == "thorough" {
						return mergeItems(rankItems(0, 3, 3, map[string]int64{"maxrank2": 3}), rankItems(0, 4, 2, map[string]int64{"maxrank2": 4}))
					}
					return rankItems(0, 2, 2, map[string]int64{"maxrank2": 3})
				}},
			{Name: "C07_implicit", Pkg: "zzh", Func: "H_C07_implicit", Reach: []string{"done"},
				What: "Add/Sub/Mul/Div with either operand expanded, every tracked subset",
				Items: tiered(func() []Item { return sItems("op", []string{"Add", "Sub", "Mul", "Div"}, pairItems(0, 2, 2)) }, func() []Item {
					return sItems("op", []string{"Add", "Sub", "Mul", "Div"}, mergeItems(pairItems(0, 3, 2), pairItems(0, 2, 3)))
				})},
			{Name: "C07_dot", Pkg: "zzh", Func: "H_C07_dot", Reach: []string{"done"},
				What:  "Dot with leading dimensions of either operand expanded",
				Items: tiered(func() []Item { return pairItemsLo(1, 2, 2) }, func() []Item { return mergeItems(pairItemsLo(1, 3, 2), pairItemsLo(1, 2, 3)) })},
			{Name: "C07_matmul", Pkg: "zzh", Func: "H_C07_matmul", Reach: []string{"done"},
				What:  "MatMul with batch dimensions of either operand expanded",
				Items: tiered(func() []Item { return pairItemsLo(2, 3, 2) }, func() []Item { return mergeItems(pairItemsLo(2, 4, 2), pairItemsLo(2, 3, 3)) })},
		},
		Assumptions: []string{numericModel, "Div: divisor elements non-zero"},
		Outside:     "target rank above 4, sizes above 3",
	})
}

func init() {
	lk := func(l, k int64) map[string]int64 {
		return map[string]int64{"leaves": l, "steps": k, "rootlast": 0, "ops": 0}
	}
	lk5 := func(l, k int64) map[string]int64 {
		return map[string]int64{"leaves": l, "steps": k, "rootlast": 0, "ops": 2}
	}
	lkr := func(l, k, ops int64) map[string]int64 {
		return map[string]int64{"leaves": l, "steps": k, "rootlast": 1, "ops": ops}
	}
	allChecks = append(allChecks, &Check{
		ID: "C01", Level: "model_checking",
		Harnesses: []Harness{
			{Name: "C01_dag", Pkg: "zzh", Func: "H_C01_dag", Reach: []string{"done"},
				What: "solver-enumerated straight-line programs over {Scale,Add,Sub,Mul}: every operand choice (fan-out, reconvergence, x op x), every root (last node only for the longest programs), tracked/untracked leaves; all tensors' gradients vs a reverse-mode tape; each rule closure invoked a bounded number of times",
				Items: tiered(func() []Item { return items(lk5(1, 1), lk5(1, 2), lk5(2, 2), lkr(1, 3, 0)) },
					func() []Item {
						return items(lk5(1, 1), lk5(1, 2), lk5(2, 2), lk(1, 3), lkr(1, 3, 2), lkr(2, 3, 0), lkr(1, 4, 1))
					})},
			{Name: "C01_accum", Pkg: "zzh", Func: "H_C01_accum", Reach: []string{"done"},
				What:  "two graphs sharing only leaves, two back-propagations: leaf gradients add up",
				Items: tiered(func() []Item { return items(lk(1, 1), lk(2, 1), lk(1, 2)) }, func() []Item { return items(lk(1, 1), lk(2, 1), lk(1, 2), lk(2, 2)) })},
			{Name: "C01_seq", Pkg: "zzh", Func: "H_C01_seq", Reach: []string{"done"},
				What: "graph A built and back-propagated, then graph B built over the same untracked leaf and a fresh tracked leaf and back-propagated: both get the total derivative, the untracked leaf is never spent",
				Items: tiered(func() []Item {
					return items(map[string]int64{"steps": 1, "ops": 2}, map[string]int64{"steps": 2, "ops": 2})
				}, func() []Item {
					return items(map[string]int64{"steps": 1, "ops": 2}, map[string]int64{"steps": 2, "ops": 2}, map[string]int64{"steps": 3, "ops": 1})
				})},
			{Name: "C01_work", Pkg: "zzh", Func: "H_C01_work", Reach: []string{"done"},
				What:  "work measure: interpreted-instruction count of a back-propagation over a doubling stack (h <- h+h) and a ladder at depth 2d vs depth d; natively a depth-40 doubling stack within 10 s",
				Items: tiered(func() []Item { return items(map[string]int64{"depth": 6}) }, func() []Item { return items(map[string]int64{"depth": 6}, map[string]int64{"depth": 8}) })},
			{Name: "C01_ladder", Pkg: "zzh", Func: "H_C01_ladder", Reach: []string{"done"},
				What: "ladder y <- y*y + y of depth d: total derivative, bounded rule applications (symbolic), depth-22 finishes in 10 s (native replay)",
				Items: tiered(func() []Item { return items(map[string]int64{"depth": 2}, map[string]int64{"depth": 4}) }, func() []Item {
					return items(map[string]int64{"depth": 2}, map[string]int64{"depth": 4}, map[string]int64{"depth": 6})
				})},
		},
		Assumptions: []string{numericModel,
			"op alphabet of the enumerated DAGs: {Scale, Add, Sub, Mul} (operands reach the edges through implicit Broadcast copies) and Concat+Slice (operands reach the edges directly); the walk in back_propagation.go is op-agnostic, per-op rules are C02",
			"graphs are single-use apart from shared leaves (as the property states)"},
		Outside: "programs longer than 4 steps (ladders deeper than 6), leaf shapes other than [2]",
	})
}

func lossItems(maxb, maxc int64, upstreams []int64) []Item {
	var out []Item
	for _, l := range []string{"MSE", "BCE", "CE"} {
		for _, u := range upstreams {
			out = append(out, Item{P: map[string]int64{"maxb": maxb, "maxc": maxc, "upstream": u}, S: map[string]string{"loss": l}})
		}
	}
	return out
}

func init() {
	allChecks = append(allChecks, &Check{
		ID: "C12", Level: "model_checking",
		Harnesses: []Harness{
			{Name: "C12_loss", Pkg: "zzh", Func: "H_C12_loss", Reach: []string{"done"},
				What:  "MSE/BCE/CE value vs the formula with clipping as ite; scalar result, finite, non-negative, same term for every tracked/untracked combination",
				Items: tiered(func() []Item { return lossItems(2, 2, []int64{0}) }, func() []Item { return lossItems(3, 3, []int64{0}) })},
			{Name: "C12_reuse", Pkg: "zzh", Func: "H_C12_reuse", Reach: []string{"done"},
				What:  "one loss object evaluated twice on pairs of independently solver-chosen shapes: no state from the first call reaches the second",
				Items: tiered(func() []Item { return lossItems(2, 2, []int64{0}) }, func() []Item { return lossItems(3, 3, []int64{0}) })},
		},
		Assumptions: []string{numericModel, "|prediction|, |target| <= 1e6",
			"math.Log is an uninterpreted function with the sign contract (x>=1 => log>=0, 0<x<=1 => log<=0); finiteness means both log arguments are > 0 in exact arithmetic (1-(1-1e-12) is exactly 1e-12 here; its float64 rounding is outside the claim)"},
		Outside: "batch sizes / class counts above 3",
	})
	allChecks = append(allChecks, &Check{
		ID: "C13", Level: "model_checking",
		Harnesses: []Harness{
			{Name: "C13_lossgrad", Pkg: "zzh", Func: "H_C13_lossgrad", Reach: []string{"done"},
				What:  "gradient of MSE/BCE/CE w.r.t. the prediction (tracked leaf, or q*r with the chain continued to q and r) vs the analytic derivative; 0 where clipped; finite at exactly 0 and 1",
				Items: tiered(func() []Item { return lossItems(2, 2, []int64{0, 1, 2}) }, func() []Item { return lossItems(3, 3, []int64{0, 1, 2}) })},
		},
		Assumptions: []string{numericModel, "targets in [0,1]; BCE/CE predictions in [0,1] and apart from the two clipping bounds by more than 1e-200 (no float64 other than the bound lies within the library's 1e-240 tie tolerance)"},
		Outside:     "batch sizes / class counts above 3; upstream computations other than an element-wise product",
	})
}

func actItems(lo, hi int, maxdim int64, upstreams []int64) []Item {
	var out []Item
	add := func(act string, r int, nilconf, up int64) {
		out = append(out, Item{P: map[string]int64{"rank": int64(r), "maxdim": maxdim, "nilconf": nilconf, "upstream": up, "fan": 0}, S: map[string]string{"act": act}})
	}
	for _, up := range upstreams {
		for r := lo; r <= hi; r++ {
			for _, a := range []string{"Relu", "Sigmoid", "Tanh"} {
				add(a, r, 0, up)
			}
			add("LeakyRelu", r, 0, up)
			add("LeakyRelu", r, 1, up)
			if r >= 1 {
				add("Softmax", r, 0, up)
				add("Softmax", r, 1, up)
			}
		}
	}
	return out
}

func init() {
	allChecks = append(allChecks, &Check{
		ID: "C14", Level: "model_checking",
		Harnesses: []Harness{
			{Name: "C14_act", Pkg: "zzh", Func: "H_C14_act", Reach: []string{"done"},
				What:  "Relu/LeakyRelu/Sigmoid/Tanh element-wise and Softmax along every dim (and nil configs): defining formula, shape; Softmax non-negative and sums to 1",
				Items: tiered(func() []Item { return actItems(0, 2, 2, []int64{0}) }, func() []Item { return mergeItems(actItems(0, 3, 3, []int64{0}), actItems(4, 4, 2, []int64{0})) })},
			{Name: "C14_reuse", Pkg: "zzh", Func: "H_C14_reuse", Reach: []string{"done"},
				What: "one activation object applied to two inputs of independently chosen rank and shape",
				Items: tiered(func() []Item {
					return sItems("act", []string{"Relu", "LeakyRelu", "Sigmoid", "Tanh", "Softmax"}, items(map[string]int64{"maxrank": 2, "maxdim": 2, "nilconf": 1}))
				}, func() []Item {
					return sItems("act", []string{"Relu", "LeakyRelu", "Sigmoid", "Tanh", "Softmax"}, items(map[string]int64{"maxrank": 3, "maxdim": 2, "nilconf": 1}, map[string]int64{"maxrank": 2, "maxdim": 3, "nilconf": 0}))
				})},
		},
		Assumptions: []string{numericModel, "math.Exp is an uninterpreted function with exp>0 (so e^x never overflows here; |x|<=700 is irrelevant in the real model)"},
		Outside:     "rank 5 (rank 4 only with sizes <= 2), sizes above 3; negative zero and overflow behaviour",
	})
	allChecks = append(allChecks, &Check{
		ID: "C15", Level: "model_checking",
		Harnesses: []Harness{
			{Name: "C15_actgrad", Pkg: "zzh", Func: "H_C15_actgrad", Reach: []string{"done"},
				What:  "gradient through each activation with the input a tracked leaf or u*v (chain continued to u, v); arbitrary upstream; values including exactly 0; Softmax along every dim",
				Items: tiered(func() []Item { return actItems(0, 2, 2, []int64{0, 1}) }, func() []Item { return mergeItems(actItems(0, 3, 3, []int64{0, 1}), actItems(4, 4, 2, []int64{0})) })},
		},
		Assumptions: []string{numericModel, "Relu/LeakyRelu inputs are exactly 0 or apart from 0 by more than 1e-200 (the library's tie tolerance is 1e-240)"},
		Outside:     "rank 5 (rank 4 only with sizes <= 2), sizes above 3; upstream computations other than an element-wise product",
	})
}

func init() {
	fcItems := func(b, f, o int64) []Item {
		return items(map[string]int64{"mode": 0, "maxb": b, "maxf": f, "maxo": o}, map[string]int64{"mode": 1, "maxb": b, "maxf": f, "maxo": o})
	}
	allChecks = append(allChecks, &Check{
		ID: "C16", Level: "model_checking",
		Harnesses: []Harness{
			{Name: "C16_fc", Pkg: "zzh", Func: "H_C16_fc", Reach: []string{"done"},
				What:  "FC built with custom initializers, or default ones then replaced through the Weights() pointers; forward formula per row; gradients of W, B and a tracked input vs the derivatives of the formula",
				Items: tiered(func() []Item { return fcItems(2, 2, 2) }, func() []Item { return fcItems(3, 3, 3) })},
		},
		Assumptions: []string{numericModel, "gonum's uniform sampler (default Weight initializer) is a contract stub returning a fresh value in [Min,Max)"},
		Outside:     "batch / feature / output counts above 3",
	})
	sgdItems := func(lo, hi int, d int64) []Item {
		return mergeItems(rankItems(lo, hi, d, map[string]int64{"nilconf": 0}), rankItems(lo, hi, d, map[string]int64{"nilconf": 1}))
	}
	allChecks = append(allChecks, &Check{
		ID: "C17", Level: "model_checking",
		Harnesses: []Harness{
			{Name: "C17_update", Pkg: "zzh", Func: "H_C17_update", Reach: []string{"done"},
				What:  "Update after a real two-path back-propagation: pointee replaced by w - lr*g (lr symbolic or default), previous tensor and gradient unchanged",
				Items: tiered(func() []Item { return sgdItems(0, 2, 2) }, func() []Item { return mergeItems(sgdItems(0, 3, 3), sgdItems(4, 4, 2)) })},
			{Name: "C17_errors", Pkg: "zzh", Func: "H_C17_errors", Reach: []string{"done"},
				What:  "nil pointer / nil tensor / missing gradient: error, nothing replaced",
				Items: func(string) []Item { return items(map[string]int64{}) }},
		},
		Assumptions: []string{numericModel},
		Outside:     "rank 5 (rank 4 only with sizes <= 2), sizes above 3",
	})
}

func init() {
	modes := func(n int) []Item {
		var out []Item
		for m := 0; m < n; m++ {
			out = append(out, Item{P: map[string]int64{"mode": int64(m)}})
		}
		return out
	}
	// bit-precise batches: every size 1..maxPrefix with "the first m positions match" (m symbolic),
	// every size 1..maxFree with an arbitrary match pattern
	fpItems := func(maxPrefix, maxFree int) []Item {
		var out []Item
		for n := 1; n <= maxPrefix; n++ {
			out = append(out, Item{P: map[string]int64{"n": int64(n), "prefix": 1}})
		}
		for n := 1; n <= maxFree; n++ {
			out = append(out, Item{P: map[string]int64{"n": int64(n), "prefix": 0}})
		}
		return out
	}
	allChecks = append(allChecks, &Check{
		ID: "C19", Level: "model_checking",
		Harnesses: []Harness{
			{Name: "C19_step", Pkg: "zzh", Func: "H_C19_step", Reach: []string{"done"},
				What:  "one Accumulate from an arbitrary pre-state {total:T, correct:C}: total' = T+n, correct' = C + #equal positions, Result = correct/total in [0,1]",
				Items: tiered(func() []Item { return items(map[string]int64{"maxn": 3}) }, func() []Item { return items(map[string]int64{"maxn": 6}) })},
			{Name: "C19_split", Pkg: "zzh", Func: "H_C19_split", Reach: []string{"done"},
				What:  "the same batch in one call or split at every position into two calls gives the same counters",
				Items: tiered(func() []Item { return items(map[string]int64{"maxn": 3}) }, func() []Item { return items(map[string]int64{"maxn": 5}) })},
			{Name: "C19_invalid", Pkg: "zzh", Func: "H_C19_invalid", Reach: []string{"done"},
				What:  "nil tensors, wrong rank (0 and 2), mismatched lengths: error, counters unchanged",
				Items: func(string) []Item { return modes(6) }},
			{Name: "C19_fp", Pkg: "zzh", Func: "H_C19_fp", Reach: []string{"done"}, FP: true,
				What:  "BIT-PRECISE (float64 = IEEE-754 binary64 in the SMT FloatingPoint theory, int = 64-bit words): one Accumulate of a batch of exactly n positions from an arbitrary pre-state below 2^20; counters exact for every match count 0..n (prefix patterns) and for every match pattern (free patterns, small n); Result is the correctly rounded quotient of the counters",
				Items: tiered(func() []Item { return fpItems(32, 6) }, func() []Item { return fpItems(64, 12) })},
		},
		Assumptions: []string{"counters are mathematical integers with 0 <= correct <= total < 2^40 (no int64 overflow within 2^40 further positions)",
			"label pairs are identical or differ by more than 1e-200", numericModel,
			"C19_fp only: no real-number abstraction - every float operation on the way from the equality mask to the counters and to Result is one correctly rounded binary64 operation; pre-state 0 <= correct <= total <= 2^20; labels of the bit-precise batches are small integers"},
		Outside: "batches longer than 6 in one call in the exact-real harnesses (covered by additivity: a long batch equals its split); bit-precise harness: batch sizes above 32 (quick) / 64 (thorough), free match patterns above 6 / 12 positions; int64 overflow of the counters",
	})
}

func init() {
	initItems := func(lo, hi int, d int64) []Item {
		var out []Item
		for _, n := range []string{"Full", "Uniform", "Normal"} {
			out = append(out, sItems("init", []string{n}, mergeItems(rankItems(lo, hi, d, map[string]int64{"nilconf": 0}), rankItems(lo, hi, d, map[string]int64{"nilconf": 1})))...)
		}
		out = append(out, sItems("init", []string{"HeUniform", "HeNormal", "XavierUniform", "XavierNormal"}, rankItems(lo, hi, d, map[string]int64{"nilconf": 0}))...)
		return out
	}
	allChecks = append(allChecks, &Check{
		ID: "C18", Level: "model_checking",
		Harnesses: []Harness{
			{Name: "C18_init", Pkg: "zzh", Func: "H_C18_init", Reach: []string{"done"},
				What:  "the seven initializers (and nil-config defaults): shape, tracked, one fresh draw per element requested with exactly the specified parameters (fan values 1..64 symbolic), second call draws afresh",
				Items: tiered(func() []Item { return initItems(0, 2, 2) }, func() []Item { return initItems(0, 3, 3) })},
			{Name: "C18_rand", Pkg: "zzh", Func: "H_C18_rand", Reach: []string{"done"},
				What:  "tensor.RandU / RandN: shape, tracking, fresh draws with the given parameters",
				Items: tiered(func() []Item { return sItems("init", []string{"RandU", "RandN"}, rankItems(0, 2, 2, nil)) }, func() []Item { return sItems("init", []string{"RandU", "RandN"}, rankItems(0, 3, 3, nil)) })},
		},
		Assumptions: []string{numericModel,
			"gonum distuv.Uniform.Rand / Normal.Rand are contract stubs: a fresh real per call, Min <= v < Max for Uniform; that gonum realises these distributions (and hence that sample moments converge) is its contract, exercised natively only as a 6-sigma moment check on 40000 draws during replay/validation",
			"math.Sqrt is an uninterpreted function: the parameter is compared as the term sqrt(6/fanIn) etc."},
		Outside: "the distributional half of the property (decided by gonum's contract, not by the solver); shapes above rank 3 / size 3",
	})
}

func init() {
	combos := func(acts []string, lossesL []string, p map[string]int64) []Item {
		var out []Item
		for _, a := range acts {
			for _, l := range lossesL {
				if a == "Softmax" && l != "CE" {
					continue
				}
				out = append(out, Item{P: p, S: map[string]string{"act": a, "loss": l}})
			}
		}
		return out
	}
	pwl := []string{"none", "Relu", "LeakyRelu"}
	trans := []string{"Sigmoid", "Tanh", "Softmax"}
	allLosses := []string{"MSE", "BCE", "CE"}
	allChecks = append(allChecks, &Check{
		ID: "C11", Level: "model_checking", ThoroughTimeoutMs: 15000,
		Harnesses: []Harness{
			{Name: "C11_train", Pkg: "zzh", Func: "H_C11_train", Reach: []string{"done"},
				What: "FC -> activation -> loss: inductive training step from arbitrary weights (forward, loss, BackPropagate, Update, ResetGradContext), new weights vs w - lr*dL/dw from closed-form references; post-state invariant; values abstracted and step repeated on the real post-update objects",
				Items: tiered(func() []Item {
					return mergeItems(combos(pwl, allLosses, map[string]int64{"maxb": 2, "maxf": 2, "maxo": 2, "steps": 2, "sharedinit": 0}),
						combos(trans, allLosses, map[string]int64{"maxb": 1, "maxf": 2, "maxo": 2, "steps": 2, "sharedinit": 0}))
				}, func() []Item {
					return mergeItems(combos(pwl, allLosses, map[string]int64{"maxb": 2, "maxf": 2, "maxo": 2, "steps": 3, "sharedinit": 0}),
						combos([]string{"none"}, []string{"MSE", "CE"}, map[string]int64{"maxb": 3, "maxf": 3, "maxo": 2, "steps": 2, "sharedinit": 0}),
						combos([]string{"Sigmoid", "Tanh"}, allLosses, map[string]int64{"maxb": 1, "maxf": 3, "maxo": 3, "steps": 3, "sharedinit": 0}),
						combos([]string{"Softmax"}, allLosses, map[string]int64{"maxb": 1, "maxf": 3, "maxo": 2, "steps": 3, "sharedinit": 0}))
				})},
			{Name: "C11_noreset", Pkg: "zzh", Func: "H_C11_noreset", Reach: []string{"done"},
				What: "second step without ResetGradContext: Update returns an error and replaces nothing",
				Items: func(string) []Item {
					return combos([]string{"none", "Sigmoid", "Softmax"}, allLosses, map[string]int64{"maxb": 2, "maxf": 2, "maxo": 2, "sharedinit": 0})
				}},
		},
		Assumptions: []string{numericModel, "targets in [0,1]; Relu/LeakyRelu pre-activations apart from 0 and BCE/CE predictions apart from the clip bounds by more than 1e-200 (differentiable points)",
			"step counts beyond the explored ones follow from the inductive form: each step starts from arbitrary weight values held by the real post-update tensor objects"},
		Outside: "widths / batch sizes above 3; models other than FC -> activation -> loss",
	})
}

// opShapeItems: every op on [2,2] operands, and every op that is defined for them on [2,1,2] operands.
func opShapeItems() []Item {
	out := sItems("op", c08OpNames, items(map[string]int64{"shape3": 0}))
	for _, o := range c08OpNames {
		if o == "MatMul" {
			continue // [2,1,2] x [2,1,2] is not a valid matrix product
		}
		out = append(out, Item{P: map[string]int64{"shape3": 1}, S: map[string]string{"op": o}})
	}
	// operand pairs of different rank with a non-square higher-rank operand, both orders
	for _, o := range []string{"Add", "Sub", "Mul", "Div", "MatMul"} {
		for pair := int64(1); pair <= 2; pair++ {
			out = append(out, Item{P: map[string]int64{"shape3": 0, "pair": pair}, S: map[string]string{"op": o}})
		}
	}
	return out
}

var c08OpNames = []string{
	"Scale", "Pow", "Exp", "Log", "Sin", "Cos", "Tan", "Sinh", "Cosh", "Tanh",
	"Transpose", "Reshape", "UnSqueeze", "Squeeze", "Flatten", "Broadcast", "Slice",
	"ReshapeSame", "FlattenLast", "BroadcastSame", "SliceWhole", "PatchWhole", "PatchFull",
	"VarAlongOne", "StdAlongOne", "MaxAlongOne", "SumAlongOne",
	"SumAlong", "MaxAlong", "MinAlong", "AvgAlong", "VarAlong", "StdAlong", "MeanAlong",
	"Add", "Sub", "Mul", "Div", "ElMax", "ElMin", "Dot", "MatMul", "Patch", "Concat2", "Concat3",
	"Eq", "Ne", "Gt", "Ge", "Lt", "Le",
}

func init() {
	allChecks = append(allChecks, &Check{
		ID: "C08", Level: "model_checking",
		Harnesses: []Harness{
			{Name: "C08_step", Pkg: "zzh", Func: "H_C08_step", Reach: []string{"done"},
				What:  "one application of each of the 35 differentiable ops / Concat (2,3 operands) / 6 comparisons with every operand in a solver-chosen state {clean untracked, tracked leaf, spent tracked, computed-from-spent}: result flags, no gradient, forward values identical to the untracked run",
				Items: func(string) []Item { return opShapeItems() }},
			{Name: "C08_hist", Pkg: "zzh", Func: "H_C08_hist", Reach: []string{"done"},
				What: "solver-enumerated histories over {new leaf, Scale, Add, Gt, Concat+Slice, BackPropagate(i), ResetGradContext(i,b)} against a reference state machine (preconditions (a),(b) assumed); after every step every tensor's gradient presence / tracked / spent flags; footprint of BackPropagate",
				Items: tiered(func() []Item {
					return items(map[string]int64{"steps": 1}, map[string]int64{"steps": 2}, map[string]int64{"steps": 3})
				},
					func() []Item {
						return items(map[string]int64{"steps": 1}, map[string]int64{"steps": 2}, map[string]int64{"steps": 3}, map[string]int64{"steps": 4})
					})},
		},
		Assumptions: []string{"histories respect the property's preconditions (a) single-use graphs apart from shared leaves and (b) no reset of a tensor with tracked, not yet back-propagated results",
			"the one-step harness covers flag propagation for histories of any length (arbitrary operand states, one operation)", numericModel},
		Outside: "histories longer than 4 steps after the first leaf (3 in quick); operand shapes other than [2,2] / [2]",
	})
}

func init() {
	confs := func(base []Item) []Item {
		var out []Item
		for c := int64(0); c <= 2; c++ {
			out = append(out, withP(base, map[string]int64{"conf": c})...)
		}
		return out
	}
	methodFns := []string{"At", "Slice", "Patch", "Transpose", "Reshape", "Broadcast", "UnSqueeze", "Squeeze", "Flatten",
		"SumAlong", "MaxAlong", "MinAlong", "AvgAlong", "VarAlong", "StdAlong", "MeanAlong"}
	binFns := []string{"Eq", "Ne", "Gt", "Ge", "Lt", "Le", "ElMax", "ElMin", "Equals", "Add", "Sub", "Mul", "Div", "Dot", "MatMul"}
	ragged := func(tier string) []Item {
		it := func(depth, lo, hi, conf int64) Item {
			return Item{P: map[string]int64{"depth": depth, "lo": lo, "hi": hi, "conf": conf}}
		}
		out := []Item{it(0, 0, 0, 0), it(0, 0, 0, 2), it(1, 0, 3, 0), it(1, 0, 3, 2), it(2, 0, 3, 0), it(2, 0, 2, 1), it(3, 0, 2, 0), it(4, 1, 2, 0)}
		if tier == "thorough" {
			out = append(out, it(3, 0, 3, 0), it(4, 0, 2, 0))
		}
		return out
	}
	allChecks = append(allChecks, &Check{
		ID: "C09", Level: "model_checking",
		Harnesses: []Harness{
			{Name: "C09_construct", Pkg: "zzh", Func: "H_C09_construct", Reach: []string{"accepted", "rejected"},
				What: "Full/Zeros/Ones/Eye/RandU/RandN with arbitrary dims (length 0..3, nil, entries in [-2,6]) and nil / CPU / arbitrary-device configs",
				Items: func(string) []Item {
					return confs(sItems("fn", []string{"Full", "Zeros", "Ones", "Eye", "RandU", "RandN"}, items(map[string]int64{})))
				}},
			{Name: "C09_tensorof", Pkg: "zzh", Func: "H_C09_tensorof", Reach: []string{"accepted", "rejected"},
				What:  "TensorOf with nested data of depth 0..4 whose length at EVERY node is solver-chosen (ragged at any depth, empty, nil)",
				Items: ragged},
			{Name: "C09_concat", Pkg: "zzh", Func: "H_C09_concat", Reach: []string{"accepted", "rejected"},
				What:  "Concat of 0..3 tensors (nil entries, ranks 0..2, sizes 1..2) along dim in [-2,6]",
				Items: func(string) []Item { return items(map[string]int64{}) }},
			{Name: "C09_backprop", Pkg: "zzh", Func: "H_C09_backprop", Reach: []string{"accepted", "rejected"},
				What:  "BackPropagate(nil | any tensor)",
				Items: func(string) []Item { return items(map[string]int64{}) }},
			{Name: "C09_method", Pkg: "zzh", Func: "H_C09_method", Reach: []string{"accepted", "rejected"},
				What:  "At/Slice/Patch/Transpose/Reshape/Broadcast/UnSqueeze/Squeeze/Flatten/7 reducers on receivers of solver-chosen rank and shape with every integer argument in [-2,6], slices of length 0..3 or nil, Patch source nil or any shape",
				Items: tiered(func() []Item { return sItems("fn", methodFns, items(map[string]int64{"maxrank": 2, "maxdim": 2})) }, func() []Item { return sItems("fn", methodFns, items(map[string]int64{"maxrank": 3, "maxdim": 3})) })},
			{Name: "C09_binary", Pkg: "zzh", Func: "H_C09_binary", Reach: []string{"accepted", "rejected"},
				What:  "the 15 binary methods with the operand nil or of any rank/shape (compatible or not)",
				Items: tiered(func() []Item { return sItems("fn", binFns, items(map[string]int64{"maxrank": 2})) }, func() []Item { return sItems("fn", binFns, items(map[string]int64{"maxrank": 3})) })},
			{Name: "C09_total", Pkg: "zzh", Func: "H_C09_total", Reach: []string{"accepted"},
				What:  "methods without an error result (NElems, Shape, 7 full reductions, 10 unary ops, Gradient, GradContext, ResetGradContext) never panic",
				Items: func(string) []Item { return items(map[string]int64{}) }},
			{Name: "C09_fc", Pkg: "zzh", Func: "H_C09_fc", Reach: []string{"accepted", "rejected"},
				What:  "NewFC with nil config, Inputs/Outputs in [-2,3], initializer map nil / empty / nil entries / custom initializers returning nil, wrong-shaped tensors or errors; then Forward with 0..2 inputs (nil, rank 0..3)",
				Items: func(string) []Item { return items(map[string]int64{}) }},
			{Name: "C09_input", Pkg: "zzh", Func: "H_C09_input", Reach: []string{"accepted", "rejected"},
				What:  "Input.Forward with and without SeedFunc, with 0..1 inputs",
				Items: func(string) []Item { return items(map[string]int64{}) }},
			{Name: "C09_act", Pkg: "zzh", Func: "H_C09_act", Reach: []string{"accepted", "rejected"},
				What: "activation constructors (nil configs, Softmax Dim in [-2,3]) and Forward with 0..2 inputs (nil, rank 0..2)",
				Items: func(string) []Item {
					return sItems("act", []string{"Relu", "LeakyRelu", "Sigmoid", "Tanh", "Softmax"}, items(map[string]int64{}))
				}},
			{Name: "C09_loss", Pkg: "zzh", Func: "H_C09_loss", Reach: []string{"accepted", "rejected"},
				What:  "MSE/BCE/CE Compute with nil or any-rank, mismatched inputs",
				Items: func(string) []Item { return sItems("loss", []string{"MSE", "BCE", "CE"}, items(map[string]int64{})) }},
			{Name: "C09_metric", Pkg: "zzh", Func: "H_C09_metric", Reach: []string{"accepted", "rejected"},
				What:  "Accuracy.Accumulate / Result with nil, wrong-rank, mismatched inputs",
				Items: func(string) []Item { return items(map[string]int64{}) }},
			{Name: "C09_sgd", Pkg: "zzh", Func: "H_C09_sgd", Reach: []string{"accepted", "rejected"},
				What:  "NewSGD(nil | config) and Update(nil pointer | nil tensor | no gradient | gradient)",
				Items: func(string) []Item { return items(map[string]int64{}) }},
			{Name: "C09_init", Pkg: "zzh", Func: "H_C09_init", Reach: []string{"accepted", "rejected"},
				What: "the seven initializer constructors (nil configs, parameters and fans in [-2,3] / any real) and Init with arbitrary shapes",
				Items: func(string) []Item {
					return sItems("init", []string{"Full", "Uniform", "Normal", "HeUniform", "HeNormal", "XavierUniform", "XavierNormal"}, items(map[string]int64{}))
				}},
			{Name: "C09_val_index", Pkg: "tensor/zzv", Func: "H_C09_val_index", Reach: []string{"accepted", "rejected"}, BV: true,
				What:  "validator layer alone at full 64-bit width (bit-vector integers with wrap-around): At / Slice / Patch index validators, dimension sizes in [1,2^40], every index argument ANY int64",
				Items: tiered(func() []Item { return sItems("fn", []string{"At", "Slice", "Patch"}, rankItems(0, 2, 0, nil)) }, func() []Item { return sItems("fn", []string{"At", "Slice", "Patch"}, rankItems(0, 3, 0, nil)) })},
			{Name: "C09_val_dim", Pkg: "tensor/zzv", Func: "H_C09_val_dim", Reach: []string{"accepted", "rejected"}, BV: true,
				What: "reducer / Flatten / UnSqueeze / Squeeze / Transpose / InputDims validators with the dim argument ANY int64",
				Items: func(string) []Item {
					return sItems("fn", []string{"Reduced", "Flatten", "UnSqueeze", "Squeeze", "Transpose", "InputDims"}, rankItems(0, 3, 0, nil))
				}},
			{Name: "C09_val_shapes", Pkg: "tensor/zzv", Func: "H_C09_val_shapes", Reach: []string{"accepted", "rejected"}, BV: true,
				What: "Reshape (sizes <= 2^15 so products cannot wrap) / Broadcast / dims-match / Dot / MatMul shape validators over symbolic 64-bit sizes",
				Items: tiered(func() []Item {
					return sItems("fn", []string{"Reshape", "Broadcast", "Match", "Dot", "MatMul"}, pairItems(0, 2, 0))
				}, func() []Item {
					return sItems("fn", []string{"Reshape", "Broadcast", "Match", "Dot", "MatMul"}, pairItems(0, 3, 0))
				})},
		},
		Assumptions: []string{"preconditions and result shapes per DESIGN Appendix A", "validator layer at full width: dimension sizes in [1,2^40] (a MaxInt64-sized dimension makes dims[i]+1 wrap, an input no caller can allocate); Reshape sizes <= 2^15", "foreign implementations of the Tensor interface are not exercised", numericModel},
		Outside:     "live tensors above rank 3 / size 3, slices longer than 3, depth-4 nested data with lengths above 2; hangs are detected only as an exhausted step budget",
	})
}

func init() {
	allChecks = append(allChecks, &Check{
		ID: "C10", Level: "model_checking",
		Harnesses: []Harness{
			{Name: "C10_frame", Pkg: "zzh", Func: "H_C10_frame", Reach: []string{"done"},
				What:  "every op (35 differentiable, Concat, 6 comparisons) on operands in any tracking state: the executor's store log shows no write to any pre-existing object; operands' shape, elements, flags, gradient and edges unchanged",
				Items: func(string) []Item { return opShapeItems() }},
			{Name: "C10_backprop", Pkg: "zzh", Func: "H_C10_backprop", Reach: []string{"done"},
				What:  "BackPropagate writes only gradient / spent fields; SGD.Update only the pointee; ResetGradContext only the receiver's context",
				Items: func(string) []Item { return items(map[string]int64{}) }},
			{Name: "C10_alias_shape", Pkg: "zzh", Func: "H_C10_alias_shape", Reach: []string{"done"},
				What: "dims / nested data / shape arguments and Shape() results overwritten with fresh solver values after the call: tensors and later gradients unaffected",
				Items: func(string) []Item {
					return sItems("fn", []string{"Full", "TensorOf", "Reshape", "Broadcast", "Shape"}, rankItems(0, 2, 3, nil))
				}},
			{Name: "C10_alias_index", Pkg: "zzh", Func: "H_C10_alias_index", Reach: []string{"done"},
				What: "index ranges (Slice, Patch) and the tensor list (Concat) overwritten with solver-chosen values between the forward call and BackPropagate: gradients follow the arguments given at call time",
				Items: func(string) []Item {
					return sItems("fn", []string{"Slice", "Patch", "Concat"}, items(map[string]int64{}))
				}},
		},
		Assumptions: []string{"the store log is exact for the interpreted code (every ssa.Store and builtin copy/append into an object allocated before the call); gonum/x-exp internals are stubbed", numericModel},
		Outside:     "programs of more than one forward call followed by BackPropagate/Update; operand shapes other than the fixed small ones",
	})
}

func init() {
	allChecks = append(allChecks, &Check{
		ID: "C20", Level: "other", Race: true,
		Harnesses: []Harness{
			{Name: "C20_forward", Pkg: "zzh", Func: "H_C20_forward", Reach: []string{"done"},
				What:  "every op executed twice on the same shared operands (tracked leaves included): exact store log shows no write to any object that existed before; both runs give identical terms",
				Items: func(string) []Item { return opShapeItems() }},
			{Name: "C20_layers", Pkg: "zzh", Func: "H_C20_layers", Reach: []string{"done"},
				What:  "FC -> Softmax -> loss evaluated twice on shared tracked parameters / inputs: no shared write, identical results",
				Items: func(string) []Item { return sItems("loss", []string{"CE"}, items(map[string]int64{})) }},
			{Name: "C20_backprop", Pkg: "zzh", Func: "H_C20_backprop", Reach: []string{"done"},
				What:  "a private tracked graph over shared untracked tensors is built and back-propagated: nothing shared is written",
				Items: func(string) []Item { return items(map[string]int64{}) }},
			{Name: "C20_rand", Pkg: "zzh", Func: "H_C20_rand", Reach: []string{"done"},
				What:  "RandU / RandN write to no pre-existing qeep object (gonum's locked global source is a stub)",
				Items: func(string) []Item { return items(map[string]int64{}) }},
		},
		Assumptions: []string{"meta-argument (not a solver verdict): under the Go memory model a data race needs two conflicting accesses of which one is a write; if no path of a goroutine's work writes to an object reachable by another goroutine, every interleaving is race-free and each goroutine computes its sequential result",
			"gonum/x-exp rand's global source is locked (its contract); qeep has no package-level mutable state (the executor would log a store to a global)", numericModel},
		Outside:     "schedules are not enumerated; goroutine counts and interleavings enter only through the read-only reduction",
		Explanation: "Sequential write-footprint analysis by symbolic execution of the real code: for every forward op, layer/activation/loss evaluation, private-graph back-propagation and random constructor, on all explored paths, the exact store log contains no write to any object allocated before the work began (shared tensors, tracked parameters, globals), and repeating the computation yields syntactically identical result terms.  The step from 'no shared writes on any path' to 'no race under any interleaving' is the standard read-only argument, stated as an assumption, not explored by the solver.",
	})
}
