package main

import (
	"math/big"
	"math/rand"
	"testing"
)

// evalTerm evaluates a Real term under an assignment; ok=false on division by zero.
func evalTerm(t *Term, env map[string]*big.Rat) (*big.Rat, bool) {
	switch t.op {
	case "rconst":
		return t.rat, true
	case "var":
		return env[t.name], true
	case "radd":
		acc := new(big.Rat)
		for _, a := range t.args {
			v, ok := evalTerm(a, env)
			if !ok {
				return nil, false
			}
			acc.Add(acc, v)
		}
		return acc, true
	case "rmul":
		acc := big.NewRat(1, 1)
		for _, a := range t.args {
			v, ok := evalTerm(a, env)
			if !ok {
				return nil, false
			}
			acc.Mul(acc, v)
		}
		return acc, true
	case "rinv":
		v, ok := evalTerm(t.args[0], env)
		if !ok || v.Sign() == 0 {
			return nil, false
		}
		return new(big.Rat).Inv(v), true
	}
	panic("evalTerm: " + t.op)
}

func TestNormaliserAgainstNaiveEvaluation(t *testing.T) {
	rng := rand.New(rand.NewSource(7))
	b := NewTB()
	names := []string{"a", "b", "c", "d"}
	for iter := 0; iter < 20000; iter++ {
		env := map[string]*big.Rat{}
		for _, n := range names {
			env[n] = big.NewRat(int64(rng.Intn(13)-6), int64(rng.Intn(4)+1))
		}
		bad := false
		var gen func(depth int) (*Term, *big.Rat)
		gen = func(depth int) (*Term, *big.Rat) {
			if depth == 0 || rng.Intn(4) == 0 {
				if rng.Intn(3) == 0 {
					r := big.NewRat(int64(rng.Intn(7)-3), int64(rng.Intn(3)+1))
					return b.Rat(r), r
				}
				n := names[rng.Intn(len(names))]
				return b.Var(n, SReal), env[n]
			}
			x, xv := gen(depth - 1)
			y, yv := gen(depth - 1)
			if bad {
				return x, xv
			}
			switch rng.Intn(5) {
			case 0:
				return b.RAdd(x, y), new(big.Rat).Add(xv, yv)
			case 1:
				return b.RSub(x, y), new(big.Rat).Sub(xv, yv)
			case 2:
				return b.RMul(x, y), new(big.Rat).Mul(xv, yv)
			case 3:
				if yv.Sign() == 0 {
					bad = true
					return x, xv
				}
				return b.RDiv(x, y), new(big.Rat).Quo(xv, yv)
			default:
				return b.RNeg(x), new(big.Rat).Neg(xv)
			}
		}
		term, want := gen(5)
		if bad {
			continue
		}
		got, ok := evalTerm(term, env)
		if !ok {
			continue // a cancelled denominator evaluated to zero inside: value undefined there
		}
		if got.Cmp(want) != 0 {
			t.Fatalf("iter %d: normalised term %s evaluates to %s, naive %s", iter, term, got, want)
		}
	}
}

func TestEqFoldsEqualPolynomials(t *testing.T) {
	b := NewTB()
	x, y, z := b.Var("x", SReal), b.Var("y", SReal), b.Var("z", SReal)
	l := b.RMul(x, b.RDiv(y, z))
	r := b.RDiv(b.RMul(x, y), z)
	if b.Eq(l, r) != b.True {
		t.Fatalf("x*(y/z) vs (x*y)/z not identified: %s / %s", l, r)
	}
	l = b.RAdd(b.RAdd(x, y), z)
	r = b.RAdd(x, b.RAdd(z, y))
	if l != r {
		t.Fatal("sum not canonical")
	}
	if b.Eq(b.RMul(b.RatI(2, 1), b.RAdd(x, y)), b.RAdd(b.RAdd(x, x), b.RAdd(y, y))) != b.True {
		t.Fatal("2(x+y) vs x+x+y+y")
	}
	if b.Eq(x, y) == b.True {
		t.Fatal("x = y folded")
	}
}
