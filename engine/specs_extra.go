package main

// Additional work items: larger dimension sizes at low rank (size-dependent logic such as n-1
// divisors, carry logic at longer fibres), added on top of the base bounds in specs.go.

func extend(check, harness string, quick, thorough func() []Item) {
	c := findCheck(check)
	if c == nil {
		panic("extend: no check " + check)
	}
	for i := range c.Harnesses {
		if c.Harnesses[i].Name == harness {
			base := c.Harnesses[i].Items
			c.Harnesses[i].Items = func(tier string) []Item {
				its := base(tier)
				if tier == "thorough" {
					if thorough != nil {
						its = append(its, thorough()...)
					}
				} else if quick != nil {
					its = append(its, quick()...)
				}
				return its
			}
			return
		}
	}
	panic("extend: no harness " + harness)
}

func init() {
	extend("C02", "C02_reduce",
		func() []Item { return sItems("op", redOps, rankItems(1, 1, 5, nil)) },
		func() []Item {
			return sItems("op", redOps, mergeItems(rankItems(1, 1, 6, nil), rankItems(2, 2, 4, nil)))
		})
	extend("C02", "C02_unary", nil, func() []Item { return c02Unary(1, 1, 6) })
	extend("C02", "C02_dot", func() []Item { return rankItems(1, 1, 4, nil) }, func() []Item { return rankItems(1, 2, 4, nil) })
	extend("C02", "C02_matmul", nil, func() []Item { return rankItems(2, 2, 4, nil) })
	extend("C05", "C05_full",
		func() []Item { return sItems("op", redOps, rankItems(1, 1, 6, nil)) },
		func() []Item {
			return sItems("op", redOps, mergeItems(rankItems(1, 1, 8, nil), rankItems(2, 2, 5, nil)))
		})
	extend("C05", "C05_along",
		func() []Item { return sItems("op", redOps, rankItems(1, 1, 6, nil)) },
		func() []Item {
			return sItems("op", redOps, mergeItems(rankItems(1, 1, 8, nil), rankItems(2, 2, 5, nil)))
		})
	extend("C03", "C03_unary", func() []Item { return unaryItems(1, 1, 5) }, func() []Item { return unaryItems(1, 1, 8) })
	extend("C03", "C03_cmp", nil, func() []Item {
		return sItems("op", []string{"Eq", "Gt", "Le", "ElMax", "Equals"}, rankItems(1, 1, 6, nil))
	})
	extend("C04", "C04_matmul", func() []Item { return pairItemsLo(4, 4, 2) }, nil)
	extend("C04", "C04_identities", func() []Item { return items(map[string]int64{"ra": 4, "maxdim": 2}) }, nil)
	extend("C04", "C04_matmul", nil, func() []Item { return pairItemsLo(2, 2, 4) })
	extend("C06", "C06_slice", func() []Item { return rankItems(1, 1, 4, nil) }, func() []Item { return rankItems(1, 2, 4, nil) })
	extend("C06", "C06_flatten", func() []Item { return rankItems(3, 3, 2, nil) }, nil)
	extend("C06", "C06_squeeze", func() []Item { return rankItems(3, 3, 2, nil) }, nil)
	extend("C06", "C06_unsqueeze", func() []Item { return rankItems(3, 3, 2, nil) }, nil)
	extend("C06", "C06_reshape", func() []Item { return rankItems(3, 3, 2, map[string]int64{"maxrank2": 3}) }, func() []Item { return rankItems(1, 2, 4, map[string]int64{"maxrank2": 4}) })
	extend("C06", "C06_broadcast", func() []Item { return rankItems(1, 2, 2, map[string]int64{"maxrank2": 4}) }, func() []Item { return rankItems(1, 2, 3, map[string]int64{"maxrank2": 4}) })
	extend("C03", "C03_binary", nil, func() []Item {
		return sItems("op", []string{"Add", "Mul"}, []Item{{P: map[string]int64{"ra": 2, "rb": 4, "maxdim": 2}}, {P: map[string]int64{"ra": 4, "rb": 2, "maxdim": 2}}})
	})
	extend("C07", "C07_explicit", func() []Item { return rankItems(1, 2, 2, map[string]int64{"maxrank2": 4}) }, nil)
	extend("C09", "C09_binary", func() []Item { return sItems("fn", []string{"MatMul", "Dot"}, items(map[string]int64{"maxrank": 3})) }, nil)
	extend("C07", "C07_explicit", nil, func() []Item { return rankItems(0, 2, 4, map[string]int64{"maxrank2": 2}) })
	extend("C14", "C14_act",
		func() []Item { return actItems(1, 1, 5, []int64{0}) },
		func() []Item { return mergeItems(actItems(1, 1, 6, []int64{0}), actItems(2, 2, 4, []int64{0})) })
	extend("C15", "C15_actgrad",
		func() []Item { return actItems(1, 1, 4, []int64{0}) },
		func() []Item { return actItems(1, 1, 5, []int64{0}) })
	fanItems := func() []Item {
		var out []Item
		for _, a := range []string{"Relu", "LeakyRelu", "Sigmoid", "Tanh"} {
			for fan := int64(1); fan <= 2; fan++ {
				out = append(out, Item{P: map[string]int64{"rank": 1, "maxdim": 2, "nilconf": 0, "upstream": 1, "fan": fan}, S: map[string]string{"act": a}})
			}
		}
		return out
	}
	extend("C15", "C15_actgrad", fanItems, fanItems)
	extend("C13", "C13_lossgrad",
		func() []Item { return lossItems(4, 1, []int64{0}) },
		func() []Item { return lossItems(5, 1, []int64{0}) })
	extend("C12", "C12_loss", func() []Item { return lossItems(4, 1, []int64{0}) }, func() []Item { return lossItems(5, 2, []int64{0}) })
	shared := func() []Item {
		return []Item{{P: map[string]int64{"maxb": 1, "maxf": 2, "maxo": 2, "steps": 2, "sharedinit": 1}, S: map[string]string{"act": "none", "loss": "MSE"}},
			{P: map[string]int64{"maxb": 1, "maxf": 2, "maxo": 2, "steps": 2, "sharedinit": 1}, S: map[string]string{"act": "Tanh", "loss": "CE"}}}
	}
	extend("C11", "C11_train", shared, shared)
	extend("C17", "C17_update", nil, func() []Item {
		return mergeItems(rankItems(1, 1, 6, map[string]int64{"nilconf": 0}))
	})
}

// extendVia adds provenance variants (harness parameter "via", see mk in harness lib.go): a sample of
// the harness's small quick-tier items is repeated with operands that were used before (7) or that
// other operations produced from used tensors (1..6).
func extendVia(check, harness string, quickVias, thoroughVias []int64, maxPerVia int) {
	c := findCheck(check)
	if c == nil {
		panic("extendVia: no check " + check)
	}
	small := func(it Item) bool {
		for _, k := range []string{"rank", "ra", "rb", "maxrank", "maxrank2"} {
			if v, ok := it.P[k]; ok && v > 2 {
				return false
			}
		}
		if v, ok := it.P["maxdim"]; ok && v > 3 {
			return false
		}
		return true
	}
	for i := range c.Harnesses {
		if c.Harnesses[i].Name != harness {
			continue
		}
		base := c.Harnesses[i].Items
		c.Harnesses[i].Items = func(tier string) []Item {
			its := base(tier)
			var pool []Item
			for _, it := range base("quick") {
				if small(it) {
					pool = append(pool, it)
				}
			}
			vias, per := quickVias, maxPerVia
			if tier == "thorough" {
				vias, per = thoroughVias, 2*maxPerVia
			}
			if len(pool) == 0 {
				return its
			}
			for _, v := range vias {
				n := per
				if n > len(pool) {
					n = len(pool)
				}
				var pick []Item
				for j := 0; j < n; j++ {
					pick = append(pick, pool[(j*len(pool)/n+int(v))%len(pool)])
				}
				its = append(its, withP(pick, map[string]int64{"via": v})...)
			}
			return its
		}
		return
	}
	panic("extendVia: no harness " + harness)
}

func init() {
	q, t := []int64{1, 7}, []int64{1, 2, 3, 4, 5, 6, 7}
	for _, h := range []string{"C03_unary", "C03_binary", "C03_cmp"} {
		extendVia("C03", h, q, t, 8)
	}
	// operand pairs that were used together before (MatMul, arithmetic), all provenances
	pairVia := func(vias []int64) func() []Item {
		return func() []Item {
			var out []Item
			for _, v := range vias {
				out = append(out, withP(sItems("op", []string{"Add", "Div"}, mergeItems(pairItems(2, 2, 2), pairItems(1, 1, 3))), map[string]int64{"via": v})...)
			}
			return out
		}
	}
	extend("C03", "C03_binary", pairVia(q), pairVia(t))
	for _, h := range []string{"C04_matmul", "C04_dot", "C04_transpose", "C04_identities"} {
		extendVia("C04", h, q, t, 6)
	}
	for _, h := range []string{"C05_full", "C05_along"} {
		extendVia("C05", h, []int64{1, 2, 7}, t, 8)
	}
	for _, h := range findCheck("C06").Harnesses {
		extendVia("C06", h.Name, q, t, 4)
	}
	for _, h := range []string{"C02_unary", "C02_binary", "C02_reduce", "C02_slice", "C02_patch", "C02_concat", "C02_dot", "C02_matmul", "C02_shape"} {
		extendVia("C02", h, q, t, 4)
	}
	for _, h := range []string{"C07_explicit", "C07_implicit", "C07_dot", "C07_matmul"} {
		extendVia("C07", h, q, t, 3)
	}
	extendVia("C12", "C12_loss", q, t, 4)
	extendVia("C13", "C13_lossgrad", q, t, 3)
	extendVia("C14", "C14_act", q, t, 4)
	extendVia("C15", "C15_actgrad", q, t, 3)
}

// rank 3 in the quick tier where an INNER dimension exists only from rank 3 on (a reduction or a
// Softmax along a dimension with more than one position on both sides of it)
func init() {
	only := func(its []Item, act string) []Item {
		var out []Item
		for _, it := range its {
			if it.S["act"] == act {
				out = append(out, it)
			}
		}
		return out
	}
	extend("C05", "C05_along", func() []Item { return sItems("op", redOps, rankItems(3, 3, 2, nil)) }, nil)
	extend("C14", "C14_act", func() []Item { return only(actItems(3, 3, 2, []int64{0}), "Softmax") }, nil)
	extend("C15", "C15_actgrad", func() []Item { return only(actItems(3, 3, 2, []int64{0}), "Softmax") }, nil)
}

// component objects that were used before (Forward / Compute and a back-propagation): "warm" = 1
func init() {
	warm := func(its []Item) []Item { return withP(its, map[string]int64{"warm": 1}) }
	extend("C15", "C15_actgrad", func() []Item { return warm(actItems(1, 2, 2, []int64{0})) }, func() []Item { return warm(actItems(1, 2, 2, []int64{0, 1})) })
	extend("C13", "C13_lossgrad", func() []Item { return warm(lossItems(2, 2, []int64{0})) }, func() []Item { return warm(lossItems(2, 2, []int64{0, 1})) })
}

// C16: parameters replaced the way a training loop does it (computed from the spent parameter, reset)
func init() {
	repl := func(b, f, o int64) func() []Item {
		return func() []Item {
			return items(map[string]int64{"mode": 0, "maxb": b, "maxf": f, "maxo": o, "repl": 1}, map[string]int64{"mode": 1, "maxb": b, "maxf": f, "maxo": o, "repl": 1})
		}
	}
	extend("C16", "C16_fc", repl(2, 2, 2), repl(2, 2, 3))
}

// Size ladder: vectors / batches of hundreds to thousands of elements (around powers of two and a few
// odd sizes), elements fixed except a handful of solver-chosen ones.  Decides the same assertions on
// code paths that exist only above a size threshold (chunked or parallel folds).
func ladder(quick bool) []int64 {
	if quick {
		return []int64{257, 1025, 2053, 4096, 4097}
	}
	return []int64{255, 256, 257, 1000, 1023, 1024, 1025, 2047, 2048, 2049, 2053, 4095, 4096, 4097, 5000, 8191, 8192, 8200}
}

func init() {
	nItems := func(quick bool) []Item {
		var out []Item
		for _, n := range ladder(quick) {
			out = append(out, Item{P: map[string]int64{"n": n}})
		}
		return out
	}
	c03b := findCheck("C03")
	c03b.Harnesses = append(c03b.Harnesses, Harness{Name: "C03_big", Pkg: "zzh", Func: "H_C03_big", Reach: []string{"done"},
		What: "Add/Sub/Mul/Scale (thorough + Div, ElMax) on operands of 8193..9216 elements (shapes [9,1024], [8193]; thorough + [4,2048], [11,800]): every position holds the defined value; elements fixed except ~30 solver-chosen ones per operand",
		Items: tiered(func() []Item {
			return mergeItems(sItems("op", []string{"Sub", "Scale"}, items(map[string]int64{"n0": 9, "n1": 1024})), sItems("op", []string{"Add", "Mul"}, items(map[string]int64{"n0": 8193})))
		}, func() []Item {
			return sItems("op", []string{"Add", "Sub", "Mul", "Div", "ElMax", "Scale"}, items(map[string]int64{"n0": 9, "n1": 1024}, map[string]int64{"n0": 8193}, map[string]int64{"n0": 4, "n1": 2048}, map[string]int64{"n0": 11, "n1": 800}))
		})})
	c17 := findCheck("C17")
	c17.Harnesses = append(c17.Harnesses, Harness{Name: "C17_big", Pkg: "zzh", Func: "H_C17_big", Reach: []string{"done"},
		What: "one SGD step on parameters of 8193..13312 elements (shapes [9,1024], [8193]; thorough + [4,2048], [11,800], [13,32,32], [4099,2]): every element is w - lr*g, old tensor and gradient untouched; elements fixed except ~30 solver-chosen ones per tensor, lr symbolic",
		Items: tiered(func() []Item {
			return items(map[string]int64{"n0": 9, "n1": 1024}, map[string]int64{"n0": 8193})
		}, func() []Item {
			return items(map[string]int64{"n0": 9, "n1": 1024}, map[string]int64{"n0": 8193}, map[string]int64{"n0": 4, "n1": 2048}, map[string]int64{"n0": 11, "n1": 800}, map[string]int64{"n0": 13, "n1": 32, "n2": 32}, map[string]int64{"n0": 4099, "n1": 2})
		})})
	c03 := findCheck("C03")
	c03.Harnesses = append(c03.Harnesses, Harness{Name: "C03_fp", Pkg: "zzh", Func: "H_C03_fp", Reach: []string{"done"}, FP: true,
		What: "BIT-PRECISE (binary64): for all finite doubles of magnitude <= 1e300, ElMax / ElMin return one of their operands unchanged and bound both; Gt/Ge/Lt/Le are exactly 1 or 0 by the IEEE comparison (vectors of 1..2 elements)",
		Items: tiered(func() []Item {
			return sItems("op", []string{"ElMax", "ElMin", "Gt", "Ge", "Lt", "Le"}, items(map[string]int64{"n": 1}))
		}, func() []Item {
			return sItems("op", []string{"ElMax", "ElMin", "Gt", "Ge", "Lt", "Le"}, items(map[string]int64{"n": 1}, map[string]int64{"n": 2}))
		})})
	c06 := findCheck("C06")
	c06.Harnesses = append(c06.Harnesses, Harness{Name: "C06_fpzero", Pkg: "zzh", Func: "H_C06_fpzero", Reach: []string{"done"}, FP: true,
		What: "BIT-PRECISE (binary64): the sign of a zero element survives construction and movement: Zeros holds +0 and Full(dims,-0) holds -0 in either construction order (innermost size 1..3), TensorOf / Reshape / Transpose / Concat deliver -0 as -0 and +0 as +0",
		Items: tiered(func() []Item {
			return items(map[string]int64{"n": 1, "order": 0}, map[string]int64{"n": 2, "order": 0}, map[string]int64{"n": 2, "order": 1}, map[string]int64{"n": 3, "order": 1})
		}, func() []Item {
			return items(map[string]int64{"n": 1, "order": 0}, map[string]int64{"n": 1, "order": 1}, map[string]int64{"n": 2, "order": 0}, map[string]int64{"n": 2, "order": 1}, map[string]int64{"n": 3, "order": 0}, map[string]int64{"n": 3, "order": 1})
		})})
	c12b := findCheck("C12")
	c12b.Harnesses = append(c12b.Harnesses, Harness{Name: "C12_fpbce", Pkg: "zzh", Func: "H_C12_fpbce", Reach: []string{"done"}, FP: true,
		What: "BIT-PRECISE (binary64): BCE (batch 1) and CE (batch 1, 1..2 classes) of predictions / targets of any finite magnitude <= 1e6 are a number >= 0 and finite; math.Log is an uninterpreted binary64 function with sign and range facts (finite on positive finite arguments, >= -30 on [1e-13,1])",
		Items: tiered(func() []Item {
			return mergeItems(sItems("loss", []string{"BCE"}, items(map[string]int64{"b": 1, "tracked": 0})), sItems("loss", []string{"CE"}, items(map[string]int64{"b": 1, "c": 1, "tracked": 0})))
		}, func() []Item {
			return mergeItems(sItems("loss", []string{"BCE"}, items(map[string]int64{"b": 1, "tracked": 0}, map[string]int64{"b": 1, "tracked": 1})), sItems("loss", []string{"CE"}, items(map[string]int64{"b": 1, "c": 1, "tracked": 0}, map[string]int64{"b": 1, "c": 2, "tracked": 0})))
		})})
	c05 := findCheck("C05")
	c05.Harnesses = append(c05.Harnesses, Harness{Name: "C05_big", Pkg: "zzh", Func: "H_C05_big", Reach: []string{"done"},
		What:  "size ladder: Sum/Avg/Mean/Var/Std/Max/Min of vectors of 255..8200 elements (fixed small integers except 9-25 solver-chosen elements at head, tail and every 509th position; extrema: tail only), the same statistic (and SumAlong(0)) of the same data as an [n/8, 8] matrix when 8 divides n",
		Items: tiered(func() []Item { return sItems("op", []string{"Sum", "Avg", "Max", "Var"}, nItems(true)) }, func() []Item { return sItems("op", redOps, nItems(false)) })})
	c19 := findCheck("C19")
	c19.Harnesses = append(c19.Harnesses, Harness{Name: "C19_big", Pkg: "zzh", Func: "H_C19_big", Reach: []string{"done"},
		What:  "size ladder: one Accumulate of a batch of 255..8200 positions from an arbitrary pre-state, match pattern fixed except 11-25 solver-chosen positions (head, tail, every 509th)",
		Items: tiered(func() []Item { return nItems(true) }, func() []Item { return nItems(false) })})
}

// Bit-precise (IEEE-754 binary64) sign / finiteness harnesses: what the real-number model cannot see is
// an algebraically equivalent formula that cancels catastrophically.  Exact values are not compared
// (that would prescribe one operation order); sign and finiteness are facts every correct formula keeps.
func init() {
	c12 := findCheck("C12")
	c12.Harnesses = append(c12.Harnesses, Harness{Name: "C12_fp", Pkg: "zzh", Func: "H_C12_fp", Reach: []string{"done"}, FP: true,
		What: "BIT-PRECISE (binary64 in the SMT FloatingPoint theory): the MSE of batches of 1..2 (thorough 1..3) samples with all predictions / targets finite and of magnitude <= 1e6 is a number >= 0 and finite; math.Pow(x,2) is modelled as the correctly rounded x*x",
		Items: tiered(func() []Item {
			return items(map[string]int64{"b": 1, "tracked": 0}, map[string]int64{"b": 1, "tracked": 1}, map[string]int64{"b": 2, "tracked": 0})
		}, func() []Item {
			return items(map[string]int64{"b": 1, "tracked": 0}, map[string]int64{"b": 1, "tracked": 1}, map[string]int64{"b": 2, "tracked": 0}, map[string]int64{"b": 2, "tracked": 1}, map[string]int64{"b": 3, "tracked": 0})
		})})
	c05 := findCheck("C05")
	c05.Harnesses = append(c05.Harnesses, Harness{Name: "C05_fp", Pkg: "zzh", Func: "H_C05_fp", Reach: []string{"done"}, FP: true,
		What: "BIT-PRECISE (binary64): Var of a vector of 1..2 (thorough 1..3) finite elements of magnitude <= 1e6 is a number >= 0 and finite (so Std is never NaN)",
		Items: tiered(func() []Item { return items(map[string]int64{"n": 1}, map[string]int64{"n": 2}) }, func() []Item {
			return items(map[string]int64{"n": 1}, map[string]int64{"n": 2}, map[string]int64{"n": 3})
		})})
	c05.Harnesses = append(c05.Harnesses, Harness{Name: "C05_fpcond", Pkg: "zzh", Func: "H_C05_fpcond", Reach: []string{"done"}, FP: true,
		What: "BIT-PRECISE (binary64): Var of a vector of 2 elements in [1e8, 1e8+1] (3 elements: no solver verdict within 3 minutes, not registered) is within 1e-6 relative + 1e-6 absolute of the two-pass definition evaluated in binary64 - an accuracy bound every backward-stable formulation meets and a cancelling one-pass formula does not",
		Items: tiered(func() []Item { return items(map[string]int64{"n": 2}) }, func() []Item { return items(map[string]int64{"n": 2}) })})
}
