package main

// Additional work items: larger dimension sizes at low rank (size-dependent logic such as n-1
// divisors, carry logic at longer fibres), added on top of the base bounds in specs.go.

func extend(check, harness string, quick, thorough func() []Item) {
	c := findCheck(check)
	if c == nil {
		panic("extend: no check " + check)
	}
	for i := range c.Harnesses {
		if c.Harnesses[i].Name == harness {
			base := c.Harnesses[i].Items
			c.Harnesses[i].Items = func(tier string) []Item {
				its := base(tier)
				if tier == "thorough" {
					if thorough != nil {
						its = append(its, thorough()...)
					}
				} else if quick != nil {
					its = append(its, quick()...)
				}
				return its
			}
			return
		}
	}
	panic("extend: no harness " + harness)
}

func init() {
	extend("C02", "C02_reduce",
		func() []Item { return sItems("op", redOps, rankItems(1, 1, 5, nil)) },
		func() []Item {
			return sItems("op", redOps, mergeItems(rankItems(1, 1, 6, nil), rankItems(2, 2, 4, nil)))
		})
	extend("C02", "C02_unary", nil, func() []Item { return c02Unary(1, 1, 6) })
	extend("C02", "C02_dot", func() []Item { return rankItems(1, 1, 4, nil) }, func() []Item { return rankItems(1, 2, 4, nil) })
	extend("C02", "C02_matmul", nil, func() []Item { return rankItems(2, 2, 4, nil) })
	extend("C05", "C05_full",
		func() []Item { return sItems("op", redOps, rankItems(1, 1, 6, nil)) },
		func() []Item {
			return sItems("op", redOps, mergeItems(rankItems(1, 1, 8, nil), rankItems(2, 2, 5, nil)))
		})
	extend("C05", "C05_along",
		func() []Item { return sItems("op", redOps, rankItems(1, 1, 6, nil)) },
		func() []Item {
			return sItems("op", redOps, mergeItems(rankItems(1, 1, 8, nil), rankItems(2, 2, 5, nil)))
		})
	extend("C03", "C03_unary", func() []Item { return unaryItems(1, 1, 5) }, func() []Item { return unaryItems(1, 1, 8) })
	extend("C03", "C03_cmp", nil, func() []Item {
		return sItems("op", []string{"Eq", "Gt", "Le", "ElMax", "Equals"}, rankItems(1, 1, 6, nil))
	})
	extend("C04", "C04_matmul", func() []Item { return pairItemsLo(4, 4, 2) }, nil)
	extend("C04", "C04_identities", func() []Item { return items(map[string]int64{"ra": 4, "maxdim": 2}) }, nil)
	extend("C04", "C04_matmul", nil, func() []Item { return pairItemsLo(2, 2, 4) })
	extend("C06", "C06_slice", func() []Item { return rankItems(1, 1, 4, nil) }, func() []Item { return rankItems(1, 2, 4, nil) })
	extend("C06", "C06_flatten", func() []Item { return rankItems(3, 3, 2, nil) }, nil)
	extend("C06", "C06_squeeze", func() []Item { return rankItems(3, 3, 2, nil) }, nil)
	extend("C06", "C06_unsqueeze", func() []Item { return rankItems(3, 3, 2, nil) }, nil)
	extend("C06", "C06_reshape", func() []Item { return rankItems(3, 3, 2, map[string]int64{"maxrank2": 3}) }, func() []Item { return rankItems(1, 2, 4, map[string]int64{"maxrank2": 4}) })
	extend("C06", "C06_broadcast", func() []Item { return rankItems(1, 2, 2, map[string]int64{"maxrank2": 4}) }, func() []Item { return rankItems(1, 2, 3, map[string]int64{"maxrank2": 4}) })
	extend("C03", "C03_binary", nil, func() []Item {
		return sItems("op", []string{"Add", "Mul"}, []Item{{P: map[string]int64{"ra": 2, "rb": 4, "maxdim": 2}}, {P: map[string]int64{"ra": 4, "rb": 2, "maxdim": 2}}})
	})
	extend("C07", "C07_explicit", func() []Item { return rankItems(1, 2, 2, map[string]int64{"maxrank2": 4}) }, nil)
	extend("C09", "C09_binary", func() []Item { return sItems("fn", []string{"MatMul", "Dot"}, items(map[string]int64{"maxrank": 3})) }, nil)
	extend("C07", "C07_explicit", nil, func() []Item { return rankItems(0, 2, 4, map[string]int64{"maxrank2": 2}) })
	extend("C14", "C14_act",
		func() []Item { return actItems(1, 1, 5, []int64{0}) },
		func() []Item { return mergeItems(actItems(1, 1, 6, []int64{0}), actItems(2, 2, 4, []int64{0})) })
	extend("C15", "C15_actgrad",
		func() []Item { return actItems(1, 1, 4, []int64{0}) },
		func() []Item { return actItems(1, 1, 5, []int64{0}) })
	fanItems := func() []Item {
		var out []Item
		for _, a := range []string{"Relu", "LeakyRelu", "Sigmoid", "Tanh"} {
			for fan := int64(1); fan <= 2; fan++ {
				out = append(out, Item{P: map[string]int64{"rank": 1, "maxdim": 2, "nilconf": 0, "upstream": 1, "fan": fan}, S: map[string]string{"act": a}})
			}
		}
		return out
	}
	extend("C15", "C15_actgrad", fanItems, fanItems)
	extend("C13", "C13_lossgrad",
		func() []Item { return lossItems(4, 1, []int64{0}) },
		func() []Item { return lossItems(5, 1, []int64{0}) })
	extend("C12", "C12_loss", func() []Item { return lossItems(4, 1, []int64{0}) }, func() []Item { return lossItems(5, 2, []int64{0}) })
	shared := func() []Item {
		return []Item{{P: map[string]int64{"maxb": 1, "maxf": 2, "maxo": 2, "steps": 2, "sharedinit": 1}, S: map[string]string{"act": "none", "loss": "MSE"}},
			{P: map[string]int64{"maxb": 1, "maxf": 2, "maxo": 2, "steps": 2, "sharedinit": 1}, S: map[string]string{"act": "Tanh", "loss": "CE"}}}
	}
	extend("C11", "C11_train", shared, shared)
	extend("C17", "C17_update", nil, func() []Item {
		return mergeItems(rankItems(1, 1, 6, map[string]int64{"nilconf": 0}))
	})
}
