package main

// Persistent SMT solver pipe (z3 -in), push/pop per query, with a one-shot
// fallback (fresh process, both z3 builds) for `unknown` answers.

import (
	"bufio"
	"fmt"
	"io"
	"math/big"
	"os"
	"os/exec"
	"strings"
	"syscall"
	"time"
)

type SolverStats struct {
	Queries   int
	Sat       int
	Unsat     int
	Unknown   int
	Fallbacks int
	Retries   int
	Time      time.Duration
	Errors    int
}

type Solver struct {
	bin       string
	cmd       *exec.Cmd
	in        *bufio.Writer
	inRaw     io.WriteCloser
	out       *bufio.Reader
	bv        bool
	fp        bool // bit-precise float64 run scope: queries go to one-shot cvc5 / z3 (QF_BVFP), see termfp.go
	emitted   map[int]bool
	declUF    map[string]bool
	perm      []string // permanent commands of the current run scope
	timeout   int      // ms
	Stats     SolverStats
	seq       int
	lastErr   string
	dumpDir   string // when set, every query is also written there
	dumpN     int
	lastFile  string
	restarted bool
	alias     map[int]*Term // proven-equal representatives (path-scoped, set by the executor)
}

// resolve follows proven equalities: a term is printed as its representative.
func (s *Solver) resolve(t *Term) *Term {
	for s.alias != nil {
		r, ok := s.alias[t.id]
		if !ok {
			break
		}
		t = r
	}
	return t
}

func (s *Solver) ref(t *Term) string { return refSMT(s.resolve(t), s.bv) }

func (s *Solver) body(t *Term) string {
	if len(s.alias) == 0 {
		return bodySMT(t, s.bv)
	}
	// print with resolved arguments
	cp := *t
	cp.args = make([]*Term, len(t.args))
	for i, a := range t.args {
		cp.args[i] = s.resolve(a)
	}
	return bodySMT(&cp, s.bv)
}

func NewSolver(bin string, timeoutMs int) *Solver {
	s := &Solver{bin: bin, timeout: timeoutMs, dumpDir: os.Getenv("QSYM_DUMP")}
	s.start()
	return s
}

func (s *Solver) start() {
	s.cmd = exec.Command(s.bin, "-in", "-memory:3000")
	s.cmd.SysProcAttr = &syscall.SysProcAttr{Pdeathsig: syscall.SIGKILL}
	w, _ := s.cmd.StdinPipe()
	r, _ := s.cmd.StdoutPipe()
	s.cmd.Stderr = nil
	if err := s.cmd.Start(); err != nil {
		panic(fmt.Sprintf("cannot start solver %s: %v", s.bin, err))
	}
	s.inRaw = w
	var sink io.Writer = w
	if lf := os.Getenv("QSYM_SOLVERLOG"); lf != "" {
		f, _ := os.OpenFile(lf, os.O_CREATE|os.O_WRONLY|os.O_APPEND, 0o644)
		sink = io.MultiWriter(w, f)
	}
	s.in = bufio.NewWriterSize(sink, 1<<16)
	s.out = bufio.NewReaderSize(r, 1<<16)
	s.emitted = map[int]bool{}
	s.declUF = map[string]bool{}
	s.perm = s.perm[:0]
	s.preamble()
}

// incTimeout: the incremental (push/pop) core is weak on non-linear arithmetic; give it a short
// budget and let the one-shot fallback (nlsat) use the full one.
func (s *Solver) incTimeout() int {
	if s.timeout > 3000 {
		return 3000
	}
	return s.timeout
}

func (s *Solver) preamble() {
	fmt.Fprintf(s.in, "(set-option :timeout %d)\n", s.incTimeout())
}

func (s *Solver) Close() {
	if s.cmd != nil {
		s.inRaw.Close()
		s.cmd.Process.Kill()
		s.cmd.Wait()
		s.cmd = nil
	}
}

// Reset starts a new run scope (all declarations and assertions dropped).
func (s *Solver) Reset(bv bool, fp ...bool) {
	s.bv = bv
	s.fp = len(fp) > 0 && fp[0]
	fmt.Fprintf(s.in, "(reset)\n")
	s.emitted = map[int]bool{}
	s.declUF = map[string]bool{}
	s.perm = s.perm[:0]
	s.preamble()
}

func (s *Solver) sendPerm(line string) {
	s.perm = append(s.perm, line)
	if s.fp {
		return // the persistent process is not used in this mode
	}
	s.in.WriteString(line)
	s.in.WriteByte('\n')
}

func (s *Solver) emit(t *Term) {
	if s.emitted[t.id] {
		return
	}
	s.emitted[t.id] = true
	switch t.op {
	case "var":
		s.sendPerm(fmt.Sprintf("(declare-const %s %s)", smtName(t), sortSMT(t.sort, s.bv)))
		if t.sort == SFloat {
			// nondeterministic float inputs are finite numbers (NaN-able inputs carry their own flag)
			s.sendPerm(fmt.Sprintf("(assert (not (fp.isNaN %s)))", smtName(t)))
			s.sendPerm(fmt.Sprintf("(assert (not (fp.isInfinite %s)))", smtName(t)))
		}
		return
	case "iconst", "rconst", "bconst", "fconst":
		return
	case "pinf", "ninf":
		s.sendPerm("(error-infinity-reached-solver)")
		return
	}
	for _, a := range t.args {
		s.emit(s.resolve(a))
	}
	if t.op == "uf" && !s.declUF[t.name] {
		s.declUF[t.name] = true
		ar := strings.Repeat("Real ", len(t.args))
		s.sendPerm(fmt.Sprintf("(declare-fun uf_%s (%s) Real)", t.name, ar))
	}
	if strings.HasPrefix(t.op, "fuf:") && !s.declUF[t.op] {
		s.declUF[t.op] = true
		ar := strings.Repeat(SFloat.String()+" ", len(t.args))
		s.sendPerm(fmt.Sprintf("(declare-fun fuf_%s (%s) %s)", t.op[4:], ar, SFloat.String()))
	}
	s.sendPerm(fmt.Sprintf("(define-fun %s () %s %s)", smtName(t), sortSMT(t.sort, s.bv), s.body(t)))
}

// Assert adds a permanent fact to the run scope.
func (s *Solver) Assert(t *Term) {
	t = s.resolve(t)
	s.emit(t)
	s.sendPerm("(assert " + refSMT(t, s.bv) + ")")
}

type ModelVal struct {
	S       string   // raw text
	Rat     *big.Rat // for Int/Real when parseable
	Bool    bool
	Exact   bool
	IsFloat bool // decoded from a FloatingPoint model value
}

const nlsatTactic = "(then simplify purify-arith qfnra-nlsat)"

// Check decides perm /\ extras. want lists the variables whose model values are needed on sat.
// nonlinear selects the strategy order: a fresh nlsat pipeline first for non-linear real queries
// (the incremental core is unreliable on them), the incremental core first otherwise.
func (s *Solver) Check(extras []*Term, want []*Term, nonlinear bool) (res string, model map[string]ModelVal) {
	t0 := time.Now()
	defer func() { s.Stats.Time += time.Since(t0) }()
	s.Stats.Queries++
	for _, e := range extras {
		s.emit(s.resolve(e))
	}
	for _, w := range want {
		s.emit(w)
	}
	if s.fp {
		res, model = s.oneShotFP(extras, want)
		if s.dumpDir != "" {
			s.dump(extras, res)
		}
		switch res {
		case "sat":
			s.Stats.Sat++
		case "unsat":
			s.Stats.Unsat++
		default:
			res = "unknown"
			s.Stats.Unknown++
		}
		return
	}
	s.in.WriteString("(push)\n")
	for _, e := range extras {
		s.in.WriteString("(assert " + s.ref(e) + ")\n")
	}
	plain := "(check-sat)"
	// non-linear: a short nlsat attempt in-process, then straight to the one-shot solvers (z3 5.1.0
	// first: its incremental linearisation finds models of UF+NRA queries that nlsat grinds on)
	tb := s.timeout
	if tb > 2500 {
		tb = 2500
	}
	tactic := fmt.Sprintf("(check-sat-using (try-for %s %d))", nlsatTactic, tb)
	order := []string{plain, tactic}
	if nonlinear {
		order = []string{tactic}
	}
	out := ""
	for i, cmdText := range order {
		s.seq++
		marker := fmt.Sprintf("<<m%d>>", s.seq)
		s.in.WriteString(cmdText + "\n")
		fmt.Fprintf(s.in, "(echo \"%s\")\n", marker)
		s.in.Flush()
		out = s.readUntil(marker)
		res = classify(out)
		if s.restarted {
			break
		}
		if res == "sat" || res == "unsat" {
			break
		}
		if i == 0 {
			s.Stats.Retries++
		}
	}
	if s.dumpDir != "" {
		s.dump(extras, res)
	}
	if res == "sat" && len(want) > 0 && !s.restarted {
		model = s.getValues(want)
	}
	if s.restarted {
		s.restarted = false // fresh process: the pushed scope is gone
	} else {
		s.in.WriteString("(pop)\n")
	}
	if res != "sat" && res != "unsat" {
		if res == "error" {
			s.Stats.Errors++
			s.lastErr = out
			if os.Getenv("QSYM_V") != "" {
				fmt.Fprintln(os.Stderr, "SOLVER ERROR:", out)
			}
		}
		s.Stats.Fallbacks++
		r2, m2 := s.oneShot(extras, want, nonlinear)
		if r2 != "" {
			res, model = r2, m2
		} else {
			res = "unknown"
		}
	}
	switch res {
	case "sat":
		s.Stats.Sat++
	case "unsat":
		s.Stats.Unsat++
	default:
		s.Stats.Unknown++
	}
	return
}

func classify(out string) string {
	if strings.Contains(out, "(error") {
		return "error"
	}
	for _, l := range strings.Split(out, "\n") {
		l = strings.TrimSpace(l)
		switch l {
		case "sat", "unsat", "unknown":
			return l
		}
	}
	return "error"
}

func (s *Solver) readUntil(marker string) string {
	var sb strings.Builder
	// hard wall-clock guard: z3's soft timeout is not always honoured by nlsat
	cmd := s.cmd
	timer := time.AfterFunc(time.Duration(s.incTimeout()+8000)*time.Millisecond, func() {
		if cmd != nil && cmd.Process != nil {
			cmd.Process.Kill()
		}
	})
	defer timer.Stop()
	for {
		line, err := s.out.ReadString('\n')
		if strings.Contains(line, marker) {
			break
		}
		sb.WriteString(line)
		if err != nil {
			sb.WriteString("(error \"solver pipe closed\")")
			// restart for later queries and restore the run scope
			perm := append([]string(nil), s.perm...)
			em, du := s.emitted, s.declUF
			s.Close()
			s.start()
			s.emitted, s.declUF = em, du
			for _, l := range perm {
				s.sendPerm(l)
			}
			s.restarted = true
			break
		}
	}
	return sb.String()
}

func (s *Solver) getValues(want []*Term) map[string]ModelVal {
	model := map[string]ModelVal{}
	// chunk to keep lines short
	for i := 0; i < len(want); i += 50 {
		j := i + 50
		if j > len(want) {
			j = len(want)
		}
		var sb strings.Builder
		sb.WriteString("(get-value (")
		for _, w := range want[i:j] {
			sb.WriteString(refSMT(w, s.bv))
			sb.WriteByte(' ')
		}
		sb.WriteString("))\n")
		s.seq++
		marker := fmt.Sprintf("<<m%d>>", s.seq)
		s.in.WriteString(sb.String())
		fmt.Fprintf(s.in, "(echo \"%s\")\n", marker)
		s.in.Flush()
		out := s.readUntil(marker)
		parseGetValue(out, want[i:j], model)
	}
	return model
}

func termKey(t *Term) string {
	if t.op == "var" {
		return t.name
	}
	return smtName(t)
}

// parseGetValue parses "((a v) (b v))" pairing positionally with want.
func parseGetValue(out string, want []*Term, model map[string]ModelVal) {
	sx, _ := parseSexp(out)
	lst, ok := sx.([]interface{})
	if !ok {
		return
	}
	for i, p := range lst {
		pair, ok := p.([]interface{})
		if !ok || len(pair) != 2 || i >= len(want) {
			continue
		}
		mv := evalSexp(pair[1])
		model[termKey(want[i])] = mv
	}
}

func sexpString(x interface{}) string {
	switch v := x.(type) {
	case string:
		return v
	case []interface{}:
		parts := make([]string, len(v))
		for i, e := range v {
			parts[i] = sexpString(e)
		}
		return "(" + strings.Join(parts, " ") + ")"
	}
	return "?"
}

func evalSexp(x interface{}) ModelVal {
	mv := ModelVal{S: sexpString(x)}
	switch v := x.(type) {
	case string:
		if v == "true" {
			mv.Bool, mv.Exact = true, true
			return mv
		}
		if v == "false" {
			mv.Exact = true
			return mv
		}
		if strings.HasPrefix(v, "#x") {
			var u uint64
			fmt.Sscanf(v[2:], "%x", &u)
			mv.Rat = new(big.Rat).SetInt64(int64(u))
			mv.Exact = true
			return mv
		}
		if strings.HasPrefix(v, "#b") {
			var u uint64
			for _, c := range v[2:] {
				u = u<<1 | uint64(c-'0')
			}
			mv.Rat = new(big.Rat).SetInt64(int64(u))
			mv.Exact = true
			return mv
		}
		approx := strings.HasSuffix(v, "?")
		v = strings.TrimSuffix(v, "?")
		if r, ok := new(big.Rat).SetString(v); ok {
			mv.Rat, mv.Exact = r, !approx
		}
		return mv
	case []interface{}:
		if len(v) == 0 {
			return mv
		}
		head, _ := v[0].(string)
		if f, ok := fpModelValue(v); ok {
			mv.Rat, mv.Exact, mv.IsFloat = ratOfFloat(f), true, true
			return mv
		}
		switch head {
		case "-":
			if len(v) == 2 {
				a := evalSexp(v[1])
				if a.Rat != nil {
					mv.Rat, mv.Exact = new(big.Rat).Neg(a.Rat), a.Exact
				}
			} else if len(v) == 3 {
				a, b := evalSexp(v[1]), evalSexp(v[2])
				if a.Rat != nil && b.Rat != nil {
					mv.Rat, mv.Exact = new(big.Rat).Sub(a.Rat, b.Rat), a.Exact && b.Exact
				}
			}
		case "/":
			if len(v) == 3 {
				a, b := evalSexp(v[1]), evalSexp(v[2])
				if a.Rat != nil && b.Rat != nil && b.Rat.Sign() != 0 {
					mv.Rat, mv.Exact = new(big.Rat).Quo(a.Rat, b.Rat), a.Exact && b.Exact
				}
			}
		case "+":
			acc := new(big.Rat)
			ok := true
			for _, e := range v[1:] {
				a := evalSexp(e)
				if a.Rat == nil {
					ok = false
					break
				}
				acc.Add(acc, a.Rat)
			}
			if ok {
				mv.Rat, mv.Exact = acc, true
			}
		case "*":
			acc := big.NewRat(1, 1)
			ok := true
			for _, e := range v[1:] {
				a := evalSexp(e)
				if a.Rat == nil {
					ok = false
					break
				}
				acc.Mul(acc, a.Rat)
			}
			if ok {
				mv.Rat, mv.Exact = acc, true
			}
		case "root-obj":
			// algebraic number: not parsed; caller falls back to generic floats
		}
	}
	return mv
}

func parseSexp(s string) (interface{}, int) {
	i := 0
	var parse func() interface{}
	skip := func() {
		for i < len(s) && (s[i] == ' ' || s[i] == '\n' || s[i] == '\t' || s[i] == '\r') {
			i++
		}
	}
	parse = func() interface{} {
		skip()
		if i >= len(s) {
			return nil
		}
		if s[i] == '(' {
			i++
			var lst []interface{}
			for {
				skip()
				if i >= len(s) {
					return lst
				}
				if s[i] == ')' {
					i++
					return lst
				}
				lst = append(lst, parse())
			}
		}
		if s[i] == '|' {
			j := i + 1
			for j < len(s) && s[j] != '|' {
				j++
			}
			tok := s[i+1 : j]
			i = j + 1
			return tok
		}
		j := i
		for j < len(s) && s[j] != ' ' && s[j] != '\n' && s[j] != ')' && s[j] != '(' && s[j] != '\t' && s[j] != '\r' {
			j++
		}
		tok := s[i:j]
		i = j
		return tok
	}
	v := parse()
	return v, i
}

// script renders the standalone query text.
func (s *Solver) script(extras []*Term, want []*Term) string {
	var sb strings.Builder
	for _, l := range s.perm {
		sb.WriteString(l)
		sb.WriteByte('\n')
	}
	for _, e := range extras {
		sb.WriteString("(assert " + s.ref(e) + ")\n")
	}
	sb.WriteString("(check-sat)\n")
	if len(want) > 0 {
		sb.WriteString("(get-value (")
		for _, w := range want {
			sb.WriteString(refSMT(w, s.bv))
			sb.WriteByte(' ')
		}
		sb.WriteString("))\n")
	}
	return sb.String()
}

func (s *Solver) dump(extras []*Term, res string) {
	s.dumpN++
	f := fmt.Sprintf("%s/q%06d_%s.smt2", s.dumpDir, s.dumpN, res)
	os.WriteFile(f, []byte(s.script(extras, nil)), 0o644)
	s.lastFile = f
}

// oneShot re-decides the query in fresh processes (non-incremental tactics: nlsat etc.).
func (s *Solver) oneShot(extras []*Term, want []*Term, nonlinear bool) (string, map[string]ModelVal) {
	f, err := os.CreateTemp("", "qsym-*.smt2")
	if err != nil {
		return "", nil
	}
	defer os.Remove(f.Name())
	f.WriteString(s.script(extras, want))
	f.Close()
	secs := s.timeout/1000 + 1
	bins := []string{"z3", "z3-new"}
	if nonlinear {
		bins = []string{"z3-new", "z3"}
	}
	for _, bin := range bins {
		out, _ := exec.Command(bin, fmt.Sprintf("-T:%d", secs), "-memory:3000", f.Name()).CombinedOutput()
		txt := string(out)
		verdict := ""
		rest := ""
		errBefore := false
		lines := strings.Split(txt, "\n")
		for i, l := range lines {
			l = strings.TrimSpace(l)
			if l == "sat" || l == "unsat" || l == "unknown" {
				verdict = l
				rest = strings.Join(lines[i+1:], "\n")
				break
			}
			if strings.Contains(l, "(error") {
				errBefore = true
			}
		}
		if errBefore {
			s.lastErr = txt
			continue // an old z3 may drop an assertion it cannot handle and still answer
		}
		if verdict == "unsat" {
			return "unsat", nil
		}
		if verdict == "sat" {
			model := map[string]ModelVal{}
			parseGetValue(rest, want, model)
			return "sat", model
		}
	}
	return "", nil
}

// CrossCheck runs a standalone script through another solver binary and returns its verdict.
func CrossCheck(bin string, args []string, script string, secs int) string {
	f, err := os.CreateTemp("", "qsym-x-*.smt2")
	if err != nil {
		return "error"
	}
	defer os.Remove(f.Name())
	f.WriteString(script)
	f.Close()
	a := append(append([]string{}, args...), f.Name())
	cmd := exec.Command(bin, a...)
	done := make(chan string, 1)
	go func() {
		out, _ := cmd.CombinedOutput()
		done <- string(out)
	}()
	select {
	case out := <-done:
		return classify(out)
	case <-time.After(time.Duration(secs) * time.Second):
		cmd.Process.Kill()
		return "unknown"
	}
}

// oneShotFP decides a bit-precise float64 query (bit-vectors + FloatingPoint) in fresh processes:
// cvc5 first (its word-level FP solver is the fastest here on the probed kernels), then both z3 builds.
func (s *Solver) oneShotFP(extras []*Term, want []*Term) (string, map[string]ModelVal) {
	f, err := os.CreateTemp("", "qsym-fp-*.smt2")
	if err != nil {
		return "", nil
	}
	defer os.Remove(f.Name())
	f.WriteString("(set-logic ALL)\n")
	f.WriteString(s.script(extras, want))
	f.Close()
	secs := s.timeout/1000 + 1
	if secs < 60 {
		secs = 60
	}
	type sv struct {
		bin  string
		args []string
	}
	for _, v := range []sv{
		{"cvc5", []string{"--produce-models", fmt.Sprintf("--tlimit=%d", secs*1000)}},
		{"z3", []string{fmt.Sprintf("-T:%d", secs), "-memory:3000"}},
		{"z3-new", []string{fmt.Sprintf("-T:%d", secs), "-memory:3000"}},
	} {
		cmd := exec.Command(v.bin, append(v.args, f.Name())...)
		cmd.SysProcAttr = &syscall.SysProcAttr{Pdeathsig: syscall.SIGKILL}
		done := make(chan []byte, 1)
		go func() {
			out, _ := cmd.CombinedOutput()
			done <- out
		}()
		var out []byte
		select {
		case out = <-done:
		case <-time.After(time.Duration(secs+5) * time.Second):
			if cmd.Process != nil {
				cmd.Process.Kill()
			}
			continue
		}
		lines := strings.Split(string(out), "\n")
		verdict, rest, errBefore := "", "", false
		for i, l := range lines {
			l = strings.TrimSpace(l)
			if l == "sat" || l == "unsat" || l == "unknown" {
				verdict, rest = l, strings.Join(lines[i+1:], "\n")
				break
			}
			if strings.Contains(l, "(error") {
				errBefore = true
			}
		}
		if errBefore {
			s.lastErr = string(out)
			s.Stats.Errors++
			continue
		}
		if verdict == "unsat" {
			return "unsat", nil
		}
		if verdict == "sat" {
			model := map[string]ModelVal{}
			parseGetValue(rest, want, model)
			return "sat", model
		}
	}
	return "", nil
}
