package main

import (
	"fmt"
	"os"
	"runtime/pprof"
	"strconv"
	"strings"
	"time"
)

func envOr(k, d string) string {
	if v := os.Getenv(k); v != "" {
		return v
	}
	return d
}

func main() {
	if len(os.Args) < 2 {
		fmt.Fprintln(os.Stderr, "usage: qsym run <pkg> <func> [k=v ...] | check <id> <tier> | replay <file>")
		os.Exit(2)
	}
	repo := envOr("QSYM_REPO", "/repo")
	hdir := envOr("QSYM_HARNESS", "/verif/harness")
	switch os.Args[1] {
	case "run":
		t0 := time.Now()
		P, err := LoadProgram(repo, hdir)
		if err != nil {
			fmt.Fprintln(os.Stderr, "load:", err)
			os.Exit(2)
		}
		fmt.Fprintf(os.Stderr, "loaded in %.1fs\n", time.Since(t0).Seconds())
		pkg := os.Args[2]
		if !strings.Contains(pkg, "/") || !strings.HasPrefix(pkg, "github.com") {
			pkg = qeepMod + "/" + pkg
		}
		fn := P.Func(pkg, os.Args[3])
		if fn == nil {
			fmt.Fprintln(os.Stderr, "no such function")
			os.Exit(2)
		}
		params := map[string]int64{}
		sparams := map[string]string{}
		for _, kv := range os.Args[4:] {
			k, v, _ := strings.Cut(kv, "=")
			if n, err := strconv.ParseInt(v, 10, 64); err == nil {
				params[k] = n
			} else {
				sparams[k] = v
			}
		}
		sol := NewSolver(envOr("QSYM_SOLVER", "z3"), 10000)
		defer sol.Close()
		ex := NewExec(P.prog, sol)
		ex.params, ex.sparams = params, sparams
		if os.Getenv("QSYM_FP") != "" {
			ex.fpMode, ex.bvInts = true, true
		}
		ex.known = map[string]bool{}
		stack := [][]int{nil}
		paths, viol, aborted := 0, 0, 0
		obl, dis := 0, 0
		reach := map[string]int{}
		for len(stack) > 0 {
			tr := stack[len(stack)-1]
			stack = stack[:len(stack)-1]
			res, nt := ex.RunPath(fn, tr)
			stack = append(stack, nt...)
			paths++
			if res.Aborted != "" {
				aborted++
				if os.Getenv("QSYM_V") != "" {
					fmt.Println("aborted:", res.Aborted, res.Decisions)
				}
			}
			obl += res.Obligations
			dis += res.Discharged
			for _, l := range res.Reached {
				reach[l]++
			}
			for _, u := range res.Undischarged {
				fmt.Println("UNDISCHARGED:", u)
			}
			for _, v := range res.Violations {
				viol++
				if viol <= 10 {
					fmt.Printf("VIOL %s %q %s @%s model=%v trail=%v\n  notes=%v\n", v.Kind, v.Label, v.Detail, v.Pos, v.Model, v.Trail, res.Notes)
				}
			}
		}
		fmt.Printf("paths=%d aborted=%d obligations=%d discharged=%d violations=%d reach=%v\n", paths, aborted, obl, dis, viol, reach)
		fmt.Printf("solver: %+v instrs=%d axioms=%d wall=%.1fs\n", sol.Stats, ex.instrs, ex.axioms, time.Since(t0).Seconds())
	case "selftest":
		os.Exit(selfTest())
	case "check":
		if pf := os.Getenv("QSYM_PROF"); pf != "" {
			f, _ := os.Create(pf)
			pprof.StartCPUProfile(f)
			code := runCheck(os.Args[2:])
			pprof.StopCPUProfile()
			f.Close()
			os.Exit(code)
		}
		os.Exit(runCheck(os.Args[2:]))
	default:
		fmt.Fprintln(os.Stderr, "unknown command")
		os.Exit(2)
	}
}
