package main

// Goroutines, channels and the sync / sync/atomic / runtime / strings helpers of interpreted code.
//
// The executor runs ONE schedule: a `go` statement runs the new goroutine at once, until it finishes
// or blocks (channel operation that cannot proceed, WaitGroup.Wait, contended Lock); a blocked
// goroutine hands control to the next one that can run (round robin).  There is no preemption.  For a
// data-race-free program whose result does not depend on the schedule (what C20 asks of the library,
// decided natively under the race detector) this is the result; other interleavings are outside the
// claim.  If every goroutine is blocked the path ends as "unsupported" (inconclusive), never as a
// violation.
//
// Each interpreted goroutine is a host goroutine; a baton (channel hand-off) guarantees that exactly
// one of them executes at any time, so the executor's state needs no locking.

import (
	"fmt"
	"go/token"
	"go/types"
	"math/big"
	"strconv"
	"strings"

	"golang.org/x/tools/go/ssa"
)

type gstate struct {
	resume chan struct{}
	fin    chan struct{}
	cond   func() bool // nil: runnable
	done   bool
	depth  int
}

type ChanV struct {
	buf    []Value
	cap    int
	closed bool
	sent   int
	recvd  int
	elem   types.Type
}

type gsched struct {
	gs     []*gstate // gs[0] is the harness goroutine
	cur    *gstate
	gpanic interface{}
	abort  bool
	wg     map[*Cell]int
	locked map[*Cell]bool
	rcount map[*Cell]int
	sbuf   map[*Cell]*strings.Builder
	pools  map[*Cell][]Value
	smaps  map[*Cell]*MapV // sync.Map objects
}

func (ex *Exec) schedReset() {
	ex.schedStop()
	main := &gstate{resume: make(chan struct{}, 1)}
	ex.sch = &gsched{gs: []*gstate{main}, cur: main, wg: map[*Cell]int{}, locked: map[*Cell]bool{}, rcount: map[*Cell]int{}, sbuf: map[*Cell]*strings.Builder{}, pools: map[*Cell][]Value{}, smaps: map[*Cell]*MapV{}}
}

// schedStop unwinds every interpreted goroutine that is still parked (end of a path).
func (ex *Exec) schedStop() {
	s := ex.sch
	if s == nil {
		return
	}
	s.abort = true
	for _, g := range s.gs[1:] {
		if !g.done {
			g.resume <- struct{}{}
			<-g.fin
		}
	}
	ex.sch = nil
}

func (s *gsched) index(g *gstate) int {
	for i, x := range s.gs {
		if x == g {
			return i
		}
	}
	return 0
}

// pick returns the next goroutine after `from` that can run, or nil.
func (s *gsched) pick(from *gstate) *gstate {
	n := len(s.gs)
	start := s.index(from)
	for k := 1; k <= n; k++ {
		g := s.gs[(start+k)%n]
		if g == from || g.done {
			continue
		}
		if g.cond == nil || g.cond() {
			return g
		}
	}
	return nil
}

// onWake runs in a goroutine that has just been handed the baton.
func (ex *Exec) onWake(me *gstate) {
	s := ex.sch
	if s == nil || s.abort {
		panic(abortPath{"path over"})
	}
	s.cur = me
	ex.depth = me.depth
	if s.gpanic != nil && me == s.gs[0] {
		p := s.gpanic
		s.gpanic = nil
		panic(p)
	}
}

func (ex *Exec) switchTo(next *gstate) {
	s := ex.sch
	me := s.cur
	me.depth = ex.depth
	next.resume <- struct{}{}
	<-me.resume
	ex.onWake(me)
}

// block parks the current goroutine until cond holds.
func (ex *Exec) block(what string, cond func() bool) {
	s := ex.sch
	for !cond() {
		me := s.cur
		me.cond = cond
		next := s.pick(me)
		if next == nil {
			me.cond = nil
			panic(&GoPanic{Kind: "unsupported", Msg: "every goroutine is blocked under the explored schedule (" + what + ")"})
		}
		ex.switchTo(next)
		me.cond = nil
	}
}

// yield lets another runnable goroutine go first (runtime.Gosched, time.Sleep).
func (ex *Exec) yield() {
	s := ex.sch
	me := s.cur
	if next := s.pick(me); next != nil {
		ex.switchTo(next)
	}
}

// spawn starts an interpreted goroutine and runs it at once.
func (ex *Exec) spawn(thunk func()) {
	s := ex.sch
	if len(s.gs) > 4096 {
		panic(&GoPanic{Kind: "budget", Msg: "more than 4096 goroutines on one path"})
	}
	g := &gstate{resume: make(chan struct{}, 1), fin: make(chan struct{})}
	s.gs = append(s.gs, g)
	go func() {
		defer close(g.fin)
		<-g.resume
		func() {
			defer func() {
				if r := recover(); r != nil {
					if _, ok := r.(abortPath); ok && s.abort {
						return // unwound at the end of the path
					}
					if s.gpanic == nil {
						s.gpanic = r // a panic in any goroutine ends the program: re-raised in the harness goroutine
					}
				}
			}()
			if s.abort {
				return
			}
			s.cur = g
			ex.depth = 0
			thunk()
		}()
		g.done = true
		if s.abort {
			return
		}
		main := s.gs[0]
		if s.gpanic != nil {
			main.resume <- struct{}{}
			return
		}
		next := s.pick(g)
		if next == nil {
			s.gpanic = &GoPanic{Kind: "unsupported", Msg: "every goroutine is blocked under the explored schedule (goroutine exit)"}
			next = main
		}
		next.resume <- struct{}{}
	}()
	ex.switchTo(g)
}

/* ---------------- channels ---------------- */

func (ex *Exec) chanOf(v Value, what string, site ssa.Instruction) *ChanV {
	c, _ := v.(*ChanV)
	if c == nil {
		panic(&GoPanic{Kind: "unsupported", Msg: what + " on a nil channel blocks forever", Pos: ex.pos2s(site.Pos())})
	}
	return c
}

func (ex *Exec) chanSend(c *ChanV, v Value, site ssa.Instruction) {
	if c.closed {
		panic(&GoPanic{Kind: "explicit", Msg: "send on closed channel", Pos: ex.pos2s(site.Pos())})
	}
	if c.cap > 0 {
		ex.block("channel send", func() bool { return len(c.buf) < c.cap || c.closed })
		if c.closed {
			panic(&GoPanic{Kind: "explicit", Msg: "send on closed channel", Pos: ex.pos2s(site.Pos())})
		}
		c.buf = append(c.buf, v)
		c.sent++
		return
	}
	// unbuffered: hand the value over and wait until it has been taken
	c.buf = append(c.buf, v)
	c.sent++
	my := c.sent
	ex.block("channel send", func() bool { return c.recvd >= my })
}

func (ex *Exec) chanRecv(c *ChanV, site ssa.Instruction) (Value, bool) {
	ex.block("channel receive", func() bool { return len(c.buf) > 0 || c.closed })
	if len(c.buf) > 0 {
		v := c.buf[0]
		c.buf = c.buf[1:]
		c.recvd++
		return v, true
	}
	return ex.zero(c.elem), false
}

func (ex *Exec) execSelect(fr *frame, i *ssa.Select) Value {
	type st struct {
		c    *ChanV
		send bool
		v    Value
	}
	sts := make([]st, len(i.States))
	for k, s := range i.States {
		c, _ := ex.get(fr, s.Chan).(*ChanV)
		sts[k] = st{c: c, send: s.Dir == types.SendOnly}
		if sts[k].send {
			sts[k].v = ex.get(fr, s.Send)
		}
	}
	ready := func() int {
		for k, s := range sts {
			if s.c == nil {
				continue
			}
			if s.send {
				if s.c.closed || len(s.c.buf) < s.c.cap || (s.c.cap == 0 && len(s.c.buf) == 0) {
					return k
				}
			} else if len(s.c.buf) > 0 || s.c.closed {
				return k
			}
		}
		return -1
	}
	k := ready()
	if k < 0 && i.Blocking {
		ex.block("select", func() bool { return ready() >= 0 })
		k = ready()
	}
	// result tuple: (index int, recvOk bool, r_0 T_0, ... r_n-1 T_n-1) for the receive states
	out := Tuple{int64(k), false}
	for _, s := range i.States {
		if s.Dir == types.RecvOnly {
			out = append(out, ex.zero(s.Chan.Type().Underlying().(*types.Chan).Elem()))
		}
	}
	if k < 0 {
		return out
	}
	if sts[k].send {
		ex.chanSend(sts[k].c, sts[k].v, i)
		return out
	}
	v, ok := ex.chanRecv(sts[k].c, i)
	out[1] = ok
	ri := 0
	for j, s := range i.States {
		if s.Dir == types.RecvOnly {
			if j == k {
				out[2+ri] = v
			}
			ri++
		}
	}
	return out
}

/* ---------------- intrinsics ---------------- */

var stdIntrinsics = map[string]intrinsicFn{}

// truth decides a boolean value (forking on a symbolic one).
func (ex *Exec) truth(v Value, what string) bool {
	switch b := ex.normInt(v).(type) {
	case bool:
		return b
	case *Term:
		return ex.branch(b, what)
	}
	panic(&GoPanic{Kind: "unsupported", Msg: "truth of non-boolean in " + what})
}

func cellArg(a []Value) *Cell { c, _ := a[0].(*Cell); return c }

func (ex *Exec) strSlice(v Value) []string {
	s, ok := v.(SliceV)
	if !ok {
		return nil
	}
	out := make([]string, s.n)
	for k := 0; k < s.n; k++ {
		out[k], _ = ex.load(s.b.cells[s.off+k]).(string)
	}
	return out
}

func (ex *Exec) mkStrSlice(ss []string) SliceV {
	sv := ex.makeSlice(types.Typ[types.String], len(ss), len(ss))
	for k, s := range ss {
		sv.b.cells[k].v = s
	}
	return sv
}

func (ex *Exec) builder(a []Value) *strings.Builder {
	c := cellArg(a)
	b := ex.sch.sbuf[c]
	if b == nil {
		b = &strings.Builder{}
		ex.sch.sbuf[c] = b
	}
	return b
}

func init() {
	type in = func(ex *Exec, _ *ssa.Function, a []Value, site ssa.Instruction) Value
	nop := func(*Exec, *ssa.Function, []Value, ssa.Instruction) Value { return nil }
	add := func(name string, f in) { stdIntrinsics[name] = f }

	// sync
	add("(*sync.WaitGroup).Add", func(ex *Exec, _ *ssa.Function, a []Value, _ ssa.Instruction) Value {
		ex.sch.wg[cellArg(a)] += int(ex.concInt(a[1], "WaitGroup.Add"))
		return nil
	})
	add("(*sync.WaitGroup).Done", func(ex *Exec, _ *ssa.Function, a []Value, _ ssa.Instruction) Value {
		ex.sch.wg[cellArg(a)]--
		return nil
	})
	add("(*sync.WaitGroup).Wait", func(ex *Exec, _ *ssa.Function, a []Value, _ ssa.Instruction) Value {
		c := cellArg(a)
		ex.block("WaitGroup.Wait", func() bool { return ex.sch.wg[c] <= 0 })
		return nil
	})
	lock := func(ex *Exec, _ *ssa.Function, a []Value, _ ssa.Instruction) Value {
		c := cellArg(a)
		ex.block("Lock", func() bool { return !ex.sch.locked[c] && ex.sch.rcount[c] == 0 })
		ex.sch.locked[c] = true
		return nil
	}
	unlock := func(ex *Exec, _ *ssa.Function, a []Value, _ ssa.Instruction) Value {
		ex.sch.locked[cellArg(a)] = false
		return nil
	}
	add("(*sync.Mutex).Lock", lock)
	add("(*sync.Mutex).Unlock", unlock)
	add("(*sync.Mutex).TryLock", func(ex *Exec, _ *ssa.Function, a []Value, _ ssa.Instruction) Value {
		c := cellArg(a)
		if ex.sch.locked[c] {
			return false
		}
		ex.sch.locked[c] = true
		return true
	})
	add("(*sync.RWMutex).Lock", lock)
	add("(*sync.RWMutex).Unlock", unlock)
	add("(*sync.RWMutex).RLock", func(ex *Exec, _ *ssa.Function, a []Value, _ ssa.Instruction) Value {
		c := cellArg(a)
		ex.block("RLock", func() bool { return !ex.sch.locked[c] })
		ex.sch.rcount[c]++
		return nil
	})
	add("(*sync.RWMutex).RUnlock", func(ex *Exec, _ *ssa.Function, a []Value, _ ssa.Instruction) Value {
		ex.sch.rcount[cellArg(a)]--
		return nil
	})

	// sync.Pool: a free list per pool object; Get falls back to New (last field of the struct)
	add("(*sync.Pool).Get", func(ex *Exec, _ *ssa.Function, a []Value, site ssa.Instruction) Value {
		c := cellArg(a)
		if l := ex.sch.pools[c]; len(l) > 0 {
			v := l[len(l)-1]
			ex.sch.pools[c] = l[:len(l)-1]
			return v
		}
		so := c.v.(*StructObj)
		if nf := ex.load(so.f[len(so.f)-1]); !isNilValue(nf) && nf != nil {
			return ex.callValue(nf, nil, site)
		}
		return nil
	})
	add("(*sync.Pool).Put", func(ex *Exec, _ *ssa.Function, a []Value, _ ssa.Instruction) Value {
		c := cellArg(a)
		if a[1] != nil {
			ex.sch.pools[c] = append(ex.sch.pools[c], a[1])
		}
		return nil
	})

	// sync.Map: one MapV per object; keys are compared the way Go compares interface values (dynamic type
	// and ==: +0 and -0 are one key, NaN is never found); symbolic keys end the path as unsupported
	smap := func(ex *Exec, a []Value) *MapV {
		c := cellArg(a)
		m := ex.sch.smaps[c]
		if m == nil {
			m = &MapV{m: map[interface{}]Value{}}
			ex.sch.smaps[c] = m
		}
		return m
	}
	add("(*sync.Map).Load", func(ex *Exec, _ *ssa.Function, a []Value, _ ssa.Instruction) Value {
		v, ok := smap(ex, a).m[ex.anyKey(a[1])]
		if !ok {
			return Tuple{nil, false}
		}
		return Tuple{v, true}
	})
	add("(*sync.Map).Store", func(ex *Exec, _ *ssa.Function, a []Value, _ ssa.Instruction) Value {
		m, k := smap(ex, a), ex.anyKey(a[1])
		if _, ok := m.m[k]; !ok {
			m.keys = append(m.keys, k)
		}
		m.m[k] = a[2]
		return nil
	})
	add("(*sync.Map).LoadOrStore", func(ex *Exec, _ *ssa.Function, a []Value, _ ssa.Instruction) Value {
		m, k := smap(ex, a), ex.anyKey(a[1])
		if v, ok := m.m[k]; ok {
			return Tuple{v, true}
		}
		m.keys = append(m.keys, k)
		m.m[k] = a[2]
		return Tuple{a[2], false}
	})
	add("(*sync.Map).Delete", func(ex *Exec, _ *ssa.Function, a []Value, _ ssa.Instruction) Value {
		m, k := smap(ex, a), ex.anyKey(a[1])
		if _, ok := m.m[k]; ok {
			delete(m.m, k)
			for i, kk := range m.keys {
				if kk == k {
					m.keys = append(m.keys[:i:i], m.keys[i+1:]...)
					break
				}
			}
		}
		return nil
	})

	// runtime / time
	add("runtime.GOMAXPROCS", func(*Exec, *ssa.Function, []Value, ssa.Instruction) Value { return int64(4) })
	add("runtime.NumCPU", func(*Exec, *ssa.Function, []Value, ssa.Instruction) Value { return int64(4) })
	add("runtime.NumGoroutine", func(ex *Exec, _ *ssa.Function, _ []Value, _ ssa.Instruction) Value { return int64(len(ex.sch.gs)) })
	add("runtime.Gosched", func(ex *Exec, _ *ssa.Function, _ []Value, _ ssa.Instruction) Value { ex.yield(); return nil })
	add("runtime.KeepAlive", nop)
	add("runtime.GC", nop)
	add("time.Sleep", func(ex *Exec, _ *ssa.Function, _ []Value, _ ssa.Instruction) Value { ex.yield(); return nil })

	// sync/atomic on plain words
	for _, ty := range []string{"Int32", "Int64", "Uint32", "Uint64", "Uintptr"} {
		add("sync/atomic.Add"+ty, func(ex *Exec, _ *ssa.Function, a []Value, site ssa.Instruction) Value {
			c := cellArg(a)
			v := ex.binop(token.ADD, ex.load(c), a[1], types.Typ[types.Int64], site.Pos())
			ex.store(c, v, "atomic")
			return v
		})
		add("sync/atomic.Load"+ty, func(ex *Exec, _ *ssa.Function, a []Value, _ ssa.Instruction) Value { return ex.load(cellArg(a)) })
		add("sync/atomic.Store"+ty, func(ex *Exec, _ *ssa.Function, a []Value, _ ssa.Instruction) Value {
			ex.store(cellArg(a), a[1], "atomic")
			return nil
		})
		add("sync/atomic.Swap"+ty, func(ex *Exec, _ *ssa.Function, a []Value, _ ssa.Instruction) Value {
			c := cellArg(a)
			old := ex.load(c)
			ex.store(c, a[1], "atomic")
			return old
		})
		add("sync/atomic.CompareAndSwap"+ty, func(ex *Exec, _ *ssa.Function, a []Value, site ssa.Instruction) Value {
			c := cellArg(a)
			eq := ex.binop(token.EQL, ex.load(c), a[1], types.Typ[types.Int64], site.Pos())
			if ex.truth(eq, "atomic.CompareAndSwap") {
				ex.store(c, a[2], "atomic")
				return true
			}
			return false
		})
	}
	// atomic.Int32 / Int64 / Uint32 / Uint64 / Bool wrapper types: field "v" is the last field
	word := func(a []Value) *Cell {
		so := cellArg(a).v.(*StructObj)
		return so.f[len(so.f)-1]
	}
	for _, ty := range []string{"Int32", "Int64", "Uint32", "Uint64"} {
		add("(*sync/atomic."+ty+").Add", func(ex *Exec, _ *ssa.Function, a []Value, site ssa.Instruction) Value {
			c := word(a)
			v := ex.binop(token.ADD, ex.load(c), a[1], types.Typ[types.Int64], site.Pos())
			ex.store(c, v, "atomic")
			return v
		})
		add("(*sync/atomic."+ty+").Load", func(ex *Exec, _ *ssa.Function, a []Value, _ ssa.Instruction) Value { return ex.load(word(a)) })
		add("(*sync/atomic."+ty+").Store", func(ex *Exec, _ *ssa.Function, a []Value, _ ssa.Instruction) Value {
			ex.store(word(a), a[1], "atomic")
			return nil
		})
	}

	// strings.Builder keeps its bytes behind unsafe pointers: host-side model keyed by the receiver
	add("(*strings.Builder).WriteString", func(ex *Exec, _ *ssa.Function, a []Value, _ ssa.Instruction) Value {
		s, _ := a[1].(string)
		ex.builder(a).WriteString(s)
		return Tuple{int64(len(s)), nil}
	})
	add("(*strings.Builder).WriteByte", func(ex *Exec, _ *ssa.Function, a []Value, _ ssa.Instruction) Value {
		ex.builder(a).WriteByte(byte(ex.concInt(a[1], "WriteByte")))
		return nil
	})
	add("(*strings.Builder).WriteRune", func(ex *Exec, _ *ssa.Function, a []Value, _ ssa.Instruction) Value {
		n, _ := ex.builder(a).WriteRune(rune(ex.concInt(a[1], "WriteRune")))
		return Tuple{int64(n), nil}
	})
	add("(*strings.Builder).Write", func(ex *Exec, _ *ssa.Function, a []Value, _ ssa.Instruction) Value {
		s := a[1].(SliceV)
		for k := 0; k < s.n; k++ {
			ex.builder(a).WriteByte(byte(ex.concInt(ex.load(s.b.cells[s.off+k]), "Write")))
		}
		return Tuple{int64(s.n), nil}
	})
	add("(*strings.Builder).String", func(ex *Exec, _ *ssa.Function, a []Value, _ ssa.Instruction) Value { return ex.builder(a).String() })
	add("(*strings.Builder).Len", func(ex *Exec, _ *ssa.Function, a []Value, _ ssa.Instruction) Value { return int64(ex.builder(a).Len()) })
	add("(*strings.Builder).Cap", func(ex *Exec, _ *ssa.Function, a []Value, _ ssa.Instruction) Value { return int64(ex.builder(a).Cap()) })
	add("(*strings.Builder).Grow", nop)
	add("(*strings.Builder).Reset", func(ex *Exec, _ *ssa.Function, a []Value, _ ssa.Instruction) Value { ex.builder(a).Reset(); return nil })
	add("fmt.Fprintf", func(ex *Exec, _ *ssa.Function, a []Value, _ ssa.Instruction) Value {
		// only the strings.Builder destination carries state; formatting is not the subject of any property
		msg, _ := a[1].(string)
		out := msg
		if len(a) > 2 {
			out = fmt.Sprintf(msg, ex.hostArgs(a[2])...)
		}
		if ifc, ok := a[0].(Iface); ok {
			if c, ok := ifc.v.(*Cell); ok && c != nil && strings.HasSuffix(ifc.t.String(), "strings.Builder") {
				ex.builder([]Value{c}).WriteString(out)
			}
		}
		return Tuple{int64(len(out)), nil}
	})

	// strings / strconv helpers whose bodies reach assembly (internal/bytealg) or unsafe
	s1 := func(f func(string) string) in {
		return func(_ *Exec, _ *ssa.Function, a []Value, _ ssa.Instruction) Value { x, _ := a[0].(string); return f(x) }
	}
	ss2b := func(f func(string, string) bool) in {
		return func(_ *Exec, _ *ssa.Function, a []Value, _ ssa.Instruction) Value {
			x, _ := a[0].(string)
			y, _ := a[1].(string)
			return f(x, y)
		}
	}
	add("strings.Join", func(ex *Exec, _ *ssa.Function, a []Value, _ ssa.Instruction) Value {
		sep, _ := a[1].(string)
		return strings.Join(ex.strSlice(a[0]), sep)
	})
	add("strings.Repeat", func(ex *Exec, _ *ssa.Function, a []Value, _ ssa.Instruction) Value {
		x, _ := a[0].(string)
		return strings.Repeat(x, int(ex.concInt(a[1], "Repeat")))
	})
	add("strings.Split", func(ex *Exec, _ *ssa.Function, a []Value, _ ssa.Instruction) Value {
		x, _ := a[0].(string)
		y, _ := a[1].(string)
		return ex.mkStrSlice(strings.Split(x, y))
	})
	add("strings.Fields", func(ex *Exec, _ *ssa.Function, a []Value, _ ssa.Instruction) Value {
		x, _ := a[0].(string)
		return ex.mkStrSlice(strings.Fields(x))
	})
	add("strings.Contains", ss2b(strings.Contains))
	add("strings.HasPrefix", ss2b(strings.HasPrefix))
	add("strings.HasSuffix", ss2b(strings.HasSuffix))
	add("strings.EqualFold", ss2b(strings.EqualFold))
	add("strings.Index", func(_ *Exec, _ *ssa.Function, a []Value, _ ssa.Instruction) Value {
		x, _ := a[0].(string)
		y, _ := a[1].(string)
		return int64(strings.Index(x, y))
	})
	add("strings.ToLower", s1(strings.ToLower))
	add("strings.ToUpper", s1(strings.ToUpper))
	add("strings.TrimSpace", s1(strings.TrimSpace))
	add("strings.ReplaceAll", func(_ *Exec, _ *ssa.Function, a []Value, _ ssa.Instruction) Value {
		x, _ := a[0].(string)
		y, _ := a[1].(string)
		z, _ := a[2].(string)
		return strings.ReplaceAll(x, y, z)
	})
	add("strings.TrimSuffix", func(_ *Exec, _ *ssa.Function, a []Value, _ ssa.Instruction) Value {
		x, _ := a[0].(string)
		y, _ := a[1].(string)
		return strings.TrimSuffix(x, y)
	})
	add("strings.TrimPrefix", func(_ *Exec, _ *ssa.Function, a []Value, _ ssa.Instruction) Value {
		x, _ := a[0].(string)
		y, _ := a[1].(string)
		return strings.TrimPrefix(x, y)
	})
	add("strconv.FormatInt", func(ex *Exec, _ *ssa.Function, a []Value, _ ssa.Instruction) Value {
		return strconv.FormatInt(ex.concInt(a[0], "FormatInt"), int(ex.concInt(a[1], "FormatInt")))
	})
	add("strconv.Quote", s1(strconv.Quote))
	add("strconv.FormatFloat", func(ex *Exec, _ *ssa.Function, a []Value, _ ssa.Instruction) Value {
		return "<float>" // formatting a possibly symbolic float: the text is never the subject
	})
	add("strconv.FormatBool", func(ex *Exec, _ *ssa.Function, a []Value, _ ssa.Instruction) Value {
		if b, ok := a[0].(bool); ok {
			return strconv.FormatBool(b)
		}
		return "<bool>"
	})
}

// anyKey is the canonical key of a comparable Go value held in an interface (sync.Map keys).
func (ex *Exec) anyKey(v Value) interface{} {
	ex.nanKeys++
	var enc func(v Value) string
	enc = func(v Value) string {
		v = ex.normInt(v)
		switch k := v.(type) {
		case nil:
			return "nil"
		case Iface:
			return k.t.String() + ":" + enc(k.v)
		case StructV:
			s := "{"
			for _, f := range k {
				s += enc(f) + ","
			}
			return s + "}"
		case ArrayV:
			s := "["
			for _, f := range k {
				s += enc(f) + ","
			}
			return s + "]"
		case string:
			return strconv.Quote(k)
		case int64:
			return strconv.FormatInt(k, 10)
		case bool:
			return strconv.FormatBool(k)
		case *Cell:
			return fmt.Sprintf("%p", k)
		case *Term:
			return strconv.FormatInt(ex.concretise(k, "sync.Map key"), 10)
		case F:
			switch k.T.op {
			case "rconst":
				return "r" + k.T.rat.RatString()
			case "fconst":
				f := k.T.f64()
				if f != f {
					return "nan#" + strconv.Itoa(ex.nanKeys) // never equal to any key
				}
				if f == 0 {
					return "r0" // +0 == -0
				}
				return "r" + new(big.Rat).SetFloat64(f).RatString()
			}
		}
		panic(&GoPanic{Kind: "unsupported", Msg: fmt.Sprintf("sync.Map key with a symbolic or non-comparable component %T", v)})
	}
	return enc(v)
}
