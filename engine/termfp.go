package main

// Bit-precise float64 layer ("F-mode").  When TB.fp is set, float-valued terms have sort SFloat and
// are built without any algebraic normalisation: every Go float operation becomes exactly one
// IEEE-754 binary64 operation (round-to-nearest-even) of the SMT-LIB FloatingPoint theory, int<->float
// conversions are to_fp / fp.to_sbv on 64-bit bit-vectors, constants are folded with Go's own float64
// arithmetic.  Used only by harnesses that ask for it (Harness.FP); every other harness keeps the
// exact-real model.

import (
	"fmt"
	"math"
	"math/big"
	"strconv"
)

const SFloat Sort = 3

func (b *TB) FConst(f float64) *Term {
	bits := math.Float64bits(f)
	if f != f {
		bits = 0x7ff8000000000000 // one NaN
	}
	return b.mk(&Term{op: "fconst", sort: SFloat, i: int64(bits)}, "f"+strconv.FormatUint(bits, 16))
}

func (t *Term) f64() float64 { return math.Float64frombits(uint64(t.i)) }

// toF coerces constants of the real layer (harness literals, 0 and 1 of intrinsics) to binary64.
func (b *TB) toF(t *Term) *Term {
	switch t.op {
	case "rconst":
		f, _ := t.rat.Float64()
		return b.FConst(f)
	case "pinf":
		return b.FConst(math.Inf(1))
	case "ninf":
		return b.FConst(math.Inf(-1))
	}
	if t.sort != SFloat {
		panic("term: real-sorted term " + t.op + " mixed into a bit-precise float expression")
	}
	return t
}

func isF(xs ...*Term) bool {
	for _, x := range xs {
		if x.sort == SFloat {
			return true
		}
	}
	return false
}

func (b *TB) fbin(op string, x, y *Term) *Term {
	x, y = b.toF(x), b.toF(y)
	if x.op == "fconst" && y.op == "fconst" {
		a, c := x.f64(), y.f64()
		switch op {
		case "fadd":
			return b.FConst(a + c)
		case "fsub":
			return b.FConst(a - c)
		case "fmul":
			return b.FConst(a * c)
		case "fdiv":
			return b.FConst(a / c)
		}
	}
	return b.app(op, SFloat, x, y)
}

func (b *TB) fneg(x *Term) *Term {
	x = b.toF(x)
	if x.op == "fconst" {
		return b.FConst(-x.f64())
	}
	return b.app("fneg", SFloat, x)
}

func (b *TB) fcmp(op string, x, y *Term) *Term {
	x, y = b.toF(x), b.toF(y)
	if x.op == "fconst" && y.op == "fconst" {
		a, c := x.f64(), y.f64()
		switch op {
		case "feq":
			return b.Bool(a == c)
		case "flt":
			return b.Bool(a < c)
		case "fle":
			return b.Bool(a <= c)
		}
	}
	if x == y {
		// inputs are finite and NaN-producing operations carry an explicit definedness flag
		return b.Bool(op != "flt")
	}
	return b.app(op, SBool, x, y)
}

// I2F is Go's int -> float64 conversion (round to nearest even).
func (b *TB) I2F(x *Term) *Term {
	if x.op == "iconst" {
		return b.FConst(float64(x.i))
	}
	return b.app("i2f", SFloat, x)
}

// F2I is Go's float64 -> int conversion (truncation; out-of-range is implementation-specific in Go
// and unspecified in SMT-LIB: outside the claim).
func (b *TB) F2I(x *Term) *Term {
	x = b.toF(x)
	if x.op == "fconst" {
		return b.Int(int64(x.f64()))
	}
	return b.app("f2i", SInt, x)
}

func fconstSMT(t *Term) string {
	bits := uint64(t.i)
	return fmt.Sprintf("(fp #b%01b #b%011b #b%052b)", bits>>63, (bits>>52)&0x7ff, bits&((1<<52)-1))
}

var opFP = map[string]string{
	"fadd": "fp.add RNE", "fsub": "fp.sub RNE", "fmul": "fp.mul RNE", "fdiv": "fp.div RNE", "fneg": "fp.neg", "fsqrt": "fp.sqrt RNE", "fisneg": "fp.isNegative",
	"feq": "fp.eq", "flt": "fp.lt", "fle": "fp.leq",
	"i2f": "(_ to_fp 11 53) RNE", "f2i": "(_ fp.to_sbv 64) RTZ",
}

// fpModelValue decodes (fp #bS #bE #bM) and the special-value forms of a model.
func fpModelValue(v []interface{}) (float64, bool) {
	head, _ := v[0].(string)
	if head == "fp" && len(v) == 4 {
		var bits uint64
		for _, p := range v[1:] {
			s, _ := p.(string)
			if len(s) < 3 || s[0] != '#' {
				return 0, false
			}
			switch s[1] {
			case 'b':
				for _, c := range s[2:] {
					bits = bits<<1 | uint64(c-'0')
				}
			case 'x':
				for _, c := range s[2:] {
					d, err := strconv.ParseUint(string(c), 16, 8)
					if err != nil {
						return 0, false
					}
					bits = bits<<4 | d
				}
			default:
				return 0, false
			}
		}
		return math.Float64frombits(bits), true
	}
	if head == "_" && len(v) >= 2 {
		switch k, _ := v[1].(string); k {
		case "+zero":
			return 0, true
		case "-zero":
			return math.Copysign(0, -1), true
		case "+oo":
			return math.Inf(1), true
		case "-oo":
			return math.Inf(-1), true
		case "NaN":
			return math.NaN(), true
		}
	}
	return 0, false
}

func ratOfFloat(f float64) *big.Rat {
	if math.IsNaN(f) || math.IsInf(f, 0) {
		return nil
	}
	return new(big.Rat).SetFloat64(f)
}
