package main

// Symbolic executor over go/ssa: concrete heap, symbolic scalars, fork by re-execution.

import (
	"fmt"
	"go/constant"
	"go/token"
	"go/types"
	"math/big"
	"sort"
	"strconv"
	"strings"
	"time"
	"unicode/utf8"

	"golang.org/x/tools/go/ssa"
)

type Violation struct {
	Kind   string            `json:"kind"` // assert | eq | finite | panic | hang | reach
	Label  string            `json:"label"`
	Detail string            `json:"detail,omitempty"`
	Pos    string            `json:"pos,omitempty"`
	Model  map[string]string `json:"model,omitempty"`
	Trail  []int             `json:"trail"`
	Solver string            `json:"solver,omitempty"`
	Query  string            `json:"-"`
}

type PathResult struct {
	Trail        []int
	Aborted      string // non-empty: path ended without reaching the end (assume false / infeasible)
	Violations   []Violation
	Obligations  int
	Discharged   int
	Syntactic    int
	Undischarged []string
	Reached      []string
	Steps        int64
	Decisions    []string
	Observed     map[string]string
	SampleQuery  string
	Notes        []string
}

type Draw struct {
	Kind string // "uniform" | "normal"
	P0   F
	P1   F
	V    F
}

type axEntry struct {
	fact      *Term
	permanent bool
	fpSafe    bool // also true of the rounded binary64 function
}

type footprint struct {
	start  int
	writes []string
}

type Exec struct {
	nanKeys int
	prog *ssa.Program
	b    *TB
	sol  *Solver

	// per work item
	params       map[string]int64
	sparams      map[string]string
	known        map[string]bool     // known-finding keys switched on (deviant oracle)
	concrete     map[string]*big.Rat // concrete mode: nondet values by name (nil = symbolic mode)
	concBool     map[string]bool
	concreteMode bool
	seedGen      func(name string) *big.Rat

	// per path
	trail        []int
	pos          int
	pending      [][]int
	pc           []*Term
	pcKey        string
	kn           map[int]int64
	steps        int64
	depth        int
	epoch        int
	fps          []*footprint
	globals      map[*ssa.Global]*Cell
	res          *PathResult
	draws        []Draw
	axDone       map[string]bool
	axByTrig     map[int][]*axEntry
	onceDone     map[*Cell]bool
	nondets      map[string]*Term // every nondet variable created on this path
	ranges       map[string][2]int64
	closureCalls map[*Closure]int
	allClosures  []*Closure

	// per worker (persist across paths)
	maxSteps  int64
	feasMemo  map[string]bool
	concMemo  map[string][]int64
	fnSeen    map[*ssa.Function]bool
	sumOK     map[*ssa.Function]int8
	rangesAll map[string][2]int64
	axioms    int
	instrs    int64
	bvInts    bool
	panicking *GoPanic // the Go-level panic currently unwinding through deferred calls (recover() takes it)
	fpMode    bool     // bit-precise float64 (termfp.go)
	sch       *gsched  // interpreted goroutines of the current path (gorun.go)
	maxViol   int
	deadline  time.Time
	reseeds   int
	xsample   int // cross-check every n-th decided obligation (0 = off)
	xcount    int
	xchecked  int
	xdisagree []string
}

func NewExec(prog *ssa.Program, sol *Solver) *Exec {
	return &Exec{
		prog: prog, b: NewTB(), sol: sol,
		maxSteps: 40_000_000,
		feasMemo: map[string]bool{}, concMemo: map[string][]int64{},
		fnSeen: map[*ssa.Function]bool{}, sumOK: map[*ssa.Function]int8{},
		rangesAll: map[string][2]int64{},
		maxViol:   3,
	}
}

/* ---------------- path driver ---------------- */

// RunPath executes the harness function along the decision trail.
func (ex *Exec) RunPath(fn *ssa.Function, trail []int) (res *PathResult, newTrails [][]int) {
	ex.trail = append([]int(nil), trail...)
	ex.pos = 0
	ex.pending = nil
	ex.pc = nil
	ex.pcKey = ""
	ex.kn = map[int]int64{}
	ex.steps = 0
	ex.depth = 0
	ex.epoch = 1
	ex.fps = nil
	ex.globals = map[*ssa.Global]*Cell{}
	ex.draws = nil
	ex.axDone = map[string]bool{}
	ex.axByTrig = map[int][]*axEntry{}
	ex.onceDone = map[*Cell]bool{}
	ex.reseeds = 0
	ex.sol.alias = map[int]*Term{}
	ex.nondets = map[string]*Term{}
	ex.ranges = map[string][2]int64{}
	ex.closureCalls = map[*Closure]int{}
	ex.allClosures = nil
	ex.res = &PathResult{Observed: map[string]string{}}
	res = ex.res
	ex.b.fp = ex.fpMode
	ex.sol.Reset(ex.bvInts, ex.fpMode)
	ex.schedReset()
	defer ex.schedStop()

	func() {
		defer func() {
			if r := recover(); r != nil {
				switch p := r.(type) {
				case *GoPanic:
					if p.Kind == "budget" {
						ex.violate(Violation{Kind: "hang", Label: "budget", Detail: p.Msg, Pos: p.Pos}, nil)
					} else if p.Kind == "unsupported" {
						res.Undischarged = append(res.Undischarged, "unsupported: "+p.Msg+" @ "+p.Pos)
						res.Aborted = "unsupported: " + p.Msg
					} else {
						// any model of the path condition is an input that panics
						var m map[string]ModelVal
						func() {
							defer func() {
								if r2 := recover(); r2 != nil {
									if _, ok := r2.(abortPath); !ok {
										if _, ok := r2.(*GoPanic); !ok {
											panic(r2)
										}
									}
								}
							}()
							if r, mm := ex.check(nil, ex.wantVars()); r == "sat" {
								m = mm
							}
						}()
						func() {
							defer func() {
								if r2 := recover(); r2 != nil {
									if _, ok := r2.(abortPath); !ok {
										panic(r2)
									}
								}
							}()
							ex.violate(Violation{Kind: "panic", Label: p.Kind, Detail: p.Msg, Pos: p.Pos}, m)
						}()
					}
				case abortPath:
					res.Aborted = p.why
				default:
					panic(r)
				}
			}
		}()
		// package initialisers of the module under test (package-level tables, sentinel errors, user
		// init functions), in dependency order through the synthetic init's own calls; initialisers of
		// other modules are skipped (their globals stay zero, as before)
		if fn.Pkg != nil {
			if pi := fn.Pkg.Func("init"); pi != nil {
				ex.call(pi, nil, nil, nil)
			}
		}
		ex.call(fn, nil, nil, nil)
	}()
	res.Trail = append([]int(nil), ex.trail[:ex.pos]...)
	res.Steps = ex.steps
	ex.instrs += ex.steps
	return res, ex.pending
}

// maxDecisions bounds the number of forking decisions on one path (an unwinding bound for loops whose
// exit condition stays symbolic, e.g. rejection sampling): exceeding it ends the path as inconclusive.
const maxDecisions = 120

func (ex *Exec) decide(n int, what string) int {
	if ex.pos >= maxDecisions {
		ex.res.Undischarged = append(ex.res.Undischarged, "unwinding bound: more than "+strconv.Itoa(maxDecisions)+" forking decisions on one path (last: "+what+")")
		panic(abortPath{"unwinding bound hit"})
	}
	if ex.pos < len(ex.trail) {
		k := ex.trail[ex.pos]
		ex.pos++
		if len(ex.res.Decisions) < 64 {
			ex.res.Decisions = append(ex.res.Decisions, what+"#"+strconv.Itoa(k))
		}
		return k
	}
	for k := 1; k < n; k++ {
		t := make([]int, ex.pos+1)
		copy(t, ex.trail[:ex.pos])
		t[ex.pos] = k
		ex.pending = append(ex.pending, t)
	}
	ex.trail = append(ex.trail[:ex.pos], 0)
	ex.pos++
	if len(ex.res.Decisions) < 64 {
		ex.res.Decisions = append(ex.res.Decisions, what+"#0")
	}
	return 0
}

func (ex *Exec) addPC(c *Term) {
	if c == ex.b.True {
		return
	}
	ex.pc = append(ex.pc, c)
	ex.pcKey = ex.pcKey + "," + strconv.Itoa(c.id)
	if len(ex.pcKey) > 200 {
		// compress
		h := uint64(1469598103934665603)
		for i := 0; i < len(ex.pcKey); i++ {
			h = (h ^ uint64(ex.pcKey[i])) * 1099511628211
		}
		ex.pcKey = "h" + strconv.FormatUint(h, 36)
	}
	ex.sol.Assert(c)
	axs, _ := ex.relevantAxioms([]*Term{c})
	for _, e := range axs {
		if ex.fpMode && !e.fpSafe {
			continue // a fact of the real function need not hold of the rounded one (exp(x) > 0 underflows)
		}
		e.permanent = true
		ex.sol.Assert(e.fact)
	}
	// learn equalities var == const
	if c.op == "eq" {
		a, b := c.args[0], c.args[1]
		if a.op == "iconst" && b.sort == SInt {
			ex.kn[b.id] = a.i
		} else if b.op == "iconst" && a.sort == SInt {
			ex.kn[a.id] = b.i
		}
	}
}

// feasible reports whether pc /\ c is satisfiable (unknown counts as feasible).
func (ex *Exec) feasible(c *Term) bool {
	if c == ex.b.True {
		return true
	}
	if c == ex.b.False {
		return false
	}
	key := ex.pcKey + "|" + strconv.Itoa(c.id)
	if v, ok := ex.feasMemo[key]; ok {
		return v
	}
	r, _ := ex.check([]*Term{c}, nil)
	v := r != "unsat"
	ex.feasMemo[key] = v
	return v
}

// branch decides a symbolic condition, forking if both sides are feasible.
func (ex *Exec) branch(c *Term, what string) bool {
	if c == ex.b.True {
		return true
	}
	if c == ex.b.False {
		return false
	}
	nc := ex.b.Not(c)
	t := ex.feasible(c)
	f := ex.feasible(nc)
	switch {
	case t && f:
		if ex.decide(2, what) == 0 {
			ex.addPC(c)
			return true
		}
		ex.addPC(nc)
		return false
	case t:
		return true
	case f:
		return false
	}
	panic(abortPath{"infeasible path condition"})
}

// concretise enumerates the feasible values of an Int term and forks on them.
func (ex *Exec) concretise(t *Term, what string) int64 {
	if t.op == "iconst" {
		return t.i
	}
	if v, ok := ex.kn[t.id]; ok {
		return v
	}
	key := ex.pcKey + "|c" + strconv.Itoa(t.id)
	vals, ok := ex.concMemo[key]
	if !ok {
		var excl []*Term
		for len(vals) <= 160 {
			r, m := ex.check(excl, []*Term{t})
			if r != "sat" {
				if r != "unsat" {
					ex.res.Undischarged = append(ex.res.Undischarged, "concretise "+what+": solver "+r)
				}
				break
			}
			mv, ok := m[termKey(t)]
			if !ok || mv.Rat == nil || !mv.Rat.IsInt() {
				ex.res.Undischarged = append(ex.res.Undischarged, "concretise "+what+": no model value")
				break
			}
			v := mv.Rat.Num().Int64()
			vals = append(vals, v)
			excl = append(excl, ex.b.Not(ex.b.Eq(t, ex.b.Int(v))))
		}
		if len(vals) > 160 {
			panic(&GoPanic{Kind: "unsupported", Msg: "unbounded concretisation of " + what + " " + t.Short()})
		}
		sort.Slice(vals, func(i, j int) bool { return vals[i] < vals[j] })
		ex.concMemo[key] = vals
	}
	if len(vals) == 0 {
		panic(abortPath{"infeasible at concretisation"})
	}
	k := 0
	if len(vals) > 1 {
		k = ex.decide(len(vals), "conc:"+what)
	}
	v := vals[k]
	ex.addPC(ex.b.Eq(t, ex.b.Int(v)))
	ex.kn[t.id] = v
	return v
}

func (ex *Exec) violate(v Violation, model map[string]ModelVal) {
	v.Trail = append([]int(nil), ex.trail[:ex.pos]...)
	if model != nil {
		v.Model = map[string]string{}
		for k, mv := range model {
			v.Model[k] = mv.S
		}
	}
	ex.res.Violations = append(ex.res.Violations, v)
	if len(ex.res.Violations) >= ex.maxViol {
		panic(abortPath{"violation limit on path"})
	}
}

/* ---------------- helpers on values ---------------- */

func (ex *Exec) pos2s(p token.Pos) string {
	if !p.IsValid() {
		return "?"
	}
	ps := ex.prog.Fset.Position(p)
	f := ps.Filename
	if i := strings.Index(f, "/repo/"); i >= 0 {
		f = f[i+6:]
	}
	return fmt.Sprintf("%s:%d", f, ps.Line)
}

func (ex *Exec) normInt(v Value) Value {
	if t, ok := v.(*Term); ok {
		if t.op == "iconst" {
			return t.i
		}
		if t.op == "bconst" {
			return t.i == 1
		}
		if t.sort == SInt {
			if k, ok := ex.kn[t.id]; ok {
				return k
			}
		}
	}
	return v
}

func (ex *Exec) intTerm(v Value) *Term {
	switch x := v.(type) {
	case int64:
		return ex.b.Int(x)
	case *Term:
		return x
	}
	panic(&GoPanic{Kind: "unsupported", Msg: fmt.Sprintf("intTerm of %T", v)})
}

func (ex *Exec) boolTerm(v Value) *Term {
	switch x := v.(type) {
	case bool:
		return ex.b.Bool(x)
	case *Term:
		return x
	}
	panic(&GoPanic{Kind: "unsupported", Msg: fmt.Sprintf("boolTerm of %T", v)})
}

func (ex *Exec) concInt(v Value, what string) int64 {
	v = ex.normInt(v)
	switch x := v.(type) {
	case int64:
		return x
	case *Term:
		return ex.concretise(x, what)
	}
	panic(&GoPanic{Kind: "unsupported", Msg: fmt.Sprintf("concInt of %T (%s)", v, what)})
}

func (ex *Exec) andD(a, b *Term) *Term {
	if a == nil {
		return b
	}
	if b == nil {
		return a
	}
	return ex.b.And(a, b)
}

func (ex *Exec) defTerm(f F) *Term {
	if f.D == nil {
		return ex.b.True
	}
	return f.D
}

func under(t types.Type) types.Type { return t.Underlying() }

func isFloatT(t types.Type) bool {
	b, ok := under(t).(*types.Basic)
	return ok && b.Info()&types.IsFloat != 0
}
func isIntT(t types.Type) bool {
	b, ok := under(t).(*types.Basic)
	return ok && b.Info()&types.IsInteger != 0
}
func isBoolT(t types.Type) bool {
	b, ok := under(t).(*types.Basic)
	return ok && b.Info()&types.IsBoolean != 0
}
func isStringT(t types.Type) bool {
	b, ok := under(t).(*types.Basic)
	return ok && b.Info()&types.IsString != 0
}

func (ex *Exec) zero(t types.Type) Value {
	switch u := under(t).(type) {
	case *types.Basic:
		switch {
		case u.Info()&types.IsBoolean != 0:
			return false
		case u.Info()&types.IsInteger != 0:
			return int64(0)
		case u.Info()&types.IsFloat != 0:
			return F{T: ex.b.Rat(ratZero)}
		case u.Info()&types.IsString != 0:
			return ""
		case u.Kind() == types.UnsafePointer:
			return (*Cell)(nil)
		case u.Kind() == types.UntypedNil:
			return nil
		}
	case *types.Pointer:
		return (*Cell)(nil)
	case *types.Slice:
		return SliceV{}
	case *types.Interface:
		return nil
	case *types.Signature:
		return nil
	case *types.Map:
		return (*MapV)(nil)
	case *types.Struct:
		sv := make(StructV, u.NumFields())
		for i := range sv {
			sv[i] = ex.zero(u.Field(i).Type())
		}
		return sv
	case *types.Array:
		av := make(ArrayV, u.Len())
		for i := range av {
			av[i] = ex.zero(u.Elem())
		}
		return av
	case *types.Tuple:
		tv := make(Tuple, u.Len())
		for i := range tv {
			tv[i] = ex.zero(u.At(i).Type())
		}
		return tv
	case *types.Chan:
		return (*ChanV)(nil)
	}
	panic(&GoPanic{Kind: "unsupported", Msg: "zero of " + t.String()})
}

func typeTag(t types.Type) string {
	if n, ok := types.Unalias(t).(*types.Named); ok {
		return n.Obj().Name()
	}
	return ""
}

func (ex *Exec) newCell(t types.Type, tag string) *Cell {
	c := &Cell{epoch: ex.epoch, tag: tag}
	switch u := under(t).(type) {
	case *types.Struct:
		so := &StructObj{f: make([]*Cell, u.NumFields())}
		tn := typeTag(t)
		for i := range so.f {
			so.f[i] = ex.newCell(u.Field(i).Type(), tn+"."+u.Field(i).Name())
		}
		c.v = so
	case *types.Array:
		bk := &Backing{cells: make([]*Cell, u.Len()), elem: u.Elem()}
		for i := range bk.cells {
			bk.cells[i] = ex.newCell(u.Elem(), tag)
		}
		c.v = bk
	default:
		c.v = ex.zero(t)
	}
	return c
}

func (ex *Exec) load(c *Cell) Value {
	switch x := c.v.(type) {
	case *StructObj:
		sv := make(StructV, len(x.f))
		for i, fc := range x.f {
			sv[i] = ex.load(fc)
		}
		return sv
	case *Backing:
		av := make(ArrayV, len(x.cells))
		for i, ec := range x.cells {
			av[i] = ex.load(ec)
		}
		return av
	}
	return c.v
}

func (ex *Exec) store(c *Cell, v Value, where string) {
	switch x := c.v.(type) {
	case *StructObj:
		sv := v.(StructV)
		for i, fc := range x.f {
			ex.store(fc, sv[i], where)
		}
		return
	case *Backing:
		av := v.(ArrayV)
		for i, ec := range x.cells {
			ex.store(ec, av[i], where)
		}
		return
	}
	if len(ex.fps) > 0 {
		for _, fp := range ex.fps {
			if c.epoch < fp.start {
				fp.writes = append(fp.writes, c.tag+"@"+where)
			}
		}
	}
	c.v = v
}

func (ex *Exec) global(g *ssa.Global) *Cell {
	if c, ok := ex.globals[g]; ok {
		return c
	}
	c := ex.newCell(g.Type().(*types.Pointer).Elem(), "global:"+g.Name())
	c.epoch = 0
	ex.globals[g] = c
	return c
}

func (ex *Exec) constVal(c *ssa.Const) Value {
	t := c.Type()
	if c.Value == nil {
		return ex.zero(t)
	}
	switch {
	case isBoolT(t):
		return constant.BoolVal(c.Value)
	case isIntT(t):
		if i, ok := constant.Int64Val(constant.ToInt(c.Value)); ok {
			return i
		}
		u, _ := constant.Uint64Val(constant.ToInt(c.Value))
		return int64(u)
	case isFloatT(t):
		return F{T: ex.constFloat(c.Value)}
	case isStringT(t):
		return constant.StringVal(c.Value)
	}
	panic(&GoPanic{Kind: "unsupported", Msg: "const of type " + t.String()})
}

func (ex *Exec) constFloat(v constant.Value) *Term {
	fv := constant.ToFloat(v)
	f64, _ := constant.Float64Val(fv)
	if f64 > 1.7e308 {
		return ex.b.PInf
	}
	if f64 < -1.7e308 {
		return ex.b.NInf
	}
	// The run-time value is the float64; it is read back as the shortest decimal that round-trips
	// (0.01 -> 1/100, 1-1e-12 -> 999999999999/10^12), the same function on every path, whatever
	// precision go/types happened to keep for the constant expression.
	return ex.b.Float(f64)
}

/* ---------------- frames ---------------- */

const maxSymbolicUnwind = 8

// isHarnessFn: harness code (zzh, zzvrt, zzv, zz_*.go) may fork per element on purpose.
func isHarnessFn(fn *ssa.Function) bool {
	if fn.Pkg != nil && strings.Contains(fn.Pkg.Pkg.Path(), "/zz") {
		return true
	}
	if p := fn.Prog.Fset.Position(fn.Pos()); strings.Contains(p.Filename, "/zz_") {
		return true
	}
	return false
}

type frame struct {
	symIf  map[*ssa.If]int
	defers []func()
	fn     *ssa.Function
	env    map[ssa.Value]Value
	fv     []Value
	prev   *ssa.BasicBlock
}

func (ex *Exec) get(fr *frame, v ssa.Value) Value {
	switch x := v.(type) {
	case *ssa.Const:
		return ex.constVal(x)
	case *ssa.Function:
		return x
	case *ssa.Builtin:
		return x
	case *ssa.Global:
		return ex.global(x)
	case *ssa.FreeVar:
		for i, f := range fr.fn.FreeVars {
			if f == x {
				return fr.fv[i]
			}
		}
		panic("freevar not found")
	}
	val, ok := fr.env[v]
	if !ok {
		panic(&GoPanic{Kind: "unsupported", Msg: "unbound value " + v.Name() + " in " + fr.fn.String()})
	}
	return val
}

func (ex *Exec) tick(pos token.Pos) {
	ex.steps++
	if ex.steps > ex.maxSteps {
		panic(&GoPanic{Kind: "budget", Msg: fmt.Sprintf("step budget %d exceeded", ex.maxSteps), Pos: ex.pos2s(pos)})
	}
}

func fnKey(fn *ssa.Function) string {
	if fn.Pkg != nil && fn.Signature.Recv() == nil && fn.Parent() == nil {
		return fn.Pkg.Pkg.Path() + "." + fn.Name()
	}
	return fn.String()
}

// call runs a function to completion and returns its result (Tuple for multi-value).
func (ex *Exec) call(fn *ssa.Function, args []Value, fv []Value, site ssa.Instruction) Value {
	if fn.Synthetic == "package initializer" && (fn.Pkg == nil || !strings.HasPrefix(fn.Pkg.Pkg.Path(), qeepMod)) {
		return nil
	}
	key := fnKey(fn)
	if strings.HasPrefix(key, "slices.overlaps[") && len(args) == 2 {
		// the only unsafe-pointer arithmetic of package slices: decided on backing identity and ranges
		a, aok := args[0].(SliceV)
		b, bok := args[1].(SliceV)
		if !aok || !bok || a.n == 0 || b.n == 0 || a.b != b.b {
			return false
		}
		return a.off <= b.off+b.n-1 && b.off <= a.off+a.n-1
	}
	if in, ok := stdIntrinsics[key]; ok {
		return in(ex, fn, args, site)
	}
	if in, ok := intrinsics[key]; ok {
		return in(ex, fn, args, site)
	}
	if fn.Blocks == nil && fn.Pkg != nil {
		fn.Pkg.Build() // dependencies are built lazily
	}
	if fn.Blocks == nil {
		panic(&GoPanic{Kind: "unsupported", Msg: "external function " + key})
	}
	if !ex.fnSeen[fn] {
		ex.fnSeen[fn] = true
	}
	if ex.summarisable(fn) && anySymbolic(args) {
		return ex.summarise(fn, args, fv)
	}
	ex.depth++
	if ex.depth > 3000 {
		panic(&GoPanic{Kind: "budget", Msg: "call depth exceeded in " + key})
	}
	defer func() { ex.depth-- }()

	fr := &frame{fn: fn, env: make(map[ssa.Value]Value, 16), fv: fv}
	for i, p := range fn.Params {
		fr.env[p] = args[i]
	}
	blk := fn.Blocks[0]
	for {
		ret, cont, done := ex.runBlocks(fr, blk, key)
		if done {
			return ret
		}
		blk = cont // a deferred call recovered a panic: the function returns through its Recover block
	}
}

// runBlocks interprets the function body from blk until it returns.  If a Go-level panic unwinds
// through a frame that has deferred calls, they run (LIFO); a deferred call that calls recover() stops
// the panic and the function returns through fn.Recover (named results as they stand).
func (ex *Exec) runBlocks(fr *frame, blk *ssa.BasicBlock, key string) (ret Value, cont *ssa.BasicBlock, done bool) {
	fn := fr.fn
	defer func() {
		if len(fr.defers) == 0 {
			return
		}
		r := recover()
		if r == nil {
			return
		}
		gp, ok := r.(*GoPanic)
		if !ok || gp.Kind == "budget" || gp.Kind == "unsupported" {
			panic(r) // engine-level: end of path, not a Go panic
		}
		saved := ex.panicking
		ex.panicking = gp
		for k := len(fr.defers) - 1; k >= 0; k-- {
			d := fr.defers[k]
			fr.defers = fr.defers[:k]
			d()
		}
		if ex.panicking == nil {
			ex.panicking = saved
			if fn.Recover != nil {
				cont, done = fn.Recover, false
				return
			}
			res := fn.Signature.Results()
			switch res.Len() {
			case 0:
				ret = nil
			case 1:
				ret = ex.zero(res.At(0).Type())
			default:
				ret = ex.zero(res)
			}
			done = true
			return
		}
		p := ex.panicking
		ex.panicking = saved
		panic(p)
	}()
	for {
		var next *ssa.BasicBlock
		for _, ins := range blk.Instrs {
			ex.tick(ins.Pos())
			switch i := ins.(type) {
			case *ssa.If:
				c := ex.normInt(ex.get(fr, i.Cond))
				var tv bool
				switch cv := c.(type) {
				case bool:
					tv = cv
				case *Term:
					// unwinding bound for loops whose exit condition stays symbolic
					if fr.symIf == nil {
						fr.symIf = map[*ssa.If]int{}
					}
					fr.symIf[i]++
					if fr.symIf[i] > maxSymbolicUnwind && !isHarnessFn(fn) {
						ex.res.Undischarged = append(ex.res.Undischarged, "unwinding bound: a symbolic branch was decided more than "+strconv.Itoa(maxSymbolicUnwind)+" times in one activation of "+fn.String()+" @ "+ex.pos2s(insPos(i, blk)))
						panic(abortPath{"unwinding bound hit"})
					}
					tv = ex.branch(cv, ex.pos2s(insPos(i, blk)))
				default:
					panic(&GoPanic{Kind: "unsupported", Msg: fmt.Sprintf("if on %T", c)})
				}
				if tv {
					next = blk.Succs[0]
				} else {
					next = blk.Succs[1]
				}
			case *ssa.Jump:
				next = blk.Succs[0]
			case *ssa.Return:
				switch len(i.Results) {
				case 0:
					return nil, nil, true
				case 1:
					return ex.get(fr, i.Results[0]), nil, true
				}
				t := make(Tuple, len(i.Results))
				for k, r := range i.Results {
					t[k] = ex.get(fr, r)
				}
				return t, nil, true
			case *ssa.Panic:
				x := ex.get(fr, i.X)
				msg := "panic"
				if ifc, ok := x.(Iface); ok {
					if s, ok := ifc.v.(string); ok {
						msg = s
					} else if e, ok := ifc.v.(*ErrObj); ok {
						msg = e.msg
					}
				}
				panic(&GoPanic{Kind: "explicit", Msg: msg, Pos: ex.pos2s(i.Pos()), Val: x})
			default:
				ex.exec(fr, ins)
			}
		}
		if next == nil {
			panic(&GoPanic{Kind: "unsupported", Msg: "block fell through in " + key})
		}
		fr.prev = blk
		blk = next
	}
}

func insPos(i ssa.Instruction, blk *ssa.BasicBlock) token.Pos {
	if i.Pos().IsValid() {
		return i.Pos()
	}
	if c, ok := i.(*ssa.If); ok {
		if p := c.Cond.Pos(); p.IsValid() {
			return p
		}
	}
	for _, o := range blk.Instrs {
		if o.Pos().IsValid() {
			return o.Pos()
		}
	}
	return token.NoPos
}

func anySymbolic(args []Value) bool {
	for _, a := range args {
		switch x := a.(type) {
		case *Term:
			if !x.isConst() {
				return true
			}
		case F:
			if x.T.op != "rconst" || x.D != nil {
				return true
			}
		}
	}
	return false
}

func (ex *Exec) exec(fr *frame, ins ssa.Instruction) {
	switch i := ins.(type) {
	case *ssa.Alloc:
		fr.env[i] = ex.newCell(i.Type().(*types.Pointer).Elem(), typeTag(i.Type().(*types.Pointer).Elem()))
	case *ssa.BinOp:
		fr.env[i] = ex.binop(i.Op, ex.get(fr, i.X), ex.get(fr, i.Y), i.X.Type(), i.Pos())
	case *ssa.UnOp:
		fr.env[i] = ex.unop(i, ex.get(fr, i.X))
	case *ssa.Phi:
		for k, p := range i.Block().Preds {
			if p == fr.prev {
				fr.env[i] = ex.get(fr, i.Edges[k])
				return
			}
		}
		panic("phi: predecessor not found")
	case *ssa.Call:
		fr.env[i] = ex.doCall(fr, &i.Call, i)
	case *ssa.MakeClosure:
		c := &Closure{fn: i.Fn.(*ssa.Function)}
		for _, b := range i.Bindings {
			c.fv = append(c.fv, ex.get(fr, b))
		}
		ex.allClosures = append(ex.allClosures, c)
		fr.env[i] = c
	case *ssa.MakeInterface:
		fr.env[i] = Iface{t: i.X.Type(), v: ex.get(fr, i.X)}
	case *ssa.ChangeInterface:
		fr.env[i] = ex.get(fr, i.X)
	case *ssa.ChangeType:
		fr.env[i] = ex.get(fr, i.X)
	case *ssa.Convert:
		fr.env[i] = ex.convert(ex.get(fr, i.X), i.X.Type(), i.Type(), i.Pos())
	case *ssa.TypeAssert:
		fr.env[i] = ex.typeAssert(i, ex.get(fr, i.X))
	case *ssa.Extract:
		fr.env[i] = ex.get(fr, i.Tuple).(Tuple)[i.Index]
	case *ssa.Field:
		fr.env[i] = ex.get(fr, i.X).(StructV)[i.Field]
	case *ssa.FieldAddr:
		p := ex.get(fr, i.X).(*Cell)
		if p == nil {
			panic(&GoPanic{Kind: "nil", Msg: "nil pointer dereference (field)", Pos: ex.pos2s(i.Pos())})
		}
		fr.env[i] = p.v.(*StructObj).f[i.Field]
	case *ssa.Index:
		x := ex.get(fr, i.X)
		idx := ex.concInt(ex.get(fr, i.Index), "index")
		switch a := x.(type) {
		case ArrayV:
			if idx < 0 || idx >= int64(len(a)) {
				panic(&GoPanic{Kind: "index", Msg: fmt.Sprintf("index out of range [%d] with length %d", idx, len(a)), Pos: ex.pos2s(i.Pos())})
			}
			fr.env[i] = a[idx]
		case string:
			if idx < 0 || idx >= int64(len(a)) {
				panic(&GoPanic{Kind: "index", Msg: "string index out of range", Pos: ex.pos2s(i.Pos())})
			}
			fr.env[i] = int64(a[idx])
		default:
			panic(&GoPanic{Kind: "unsupported", Msg: fmt.Sprintf("Index on %T", x)})
		}
	case *ssa.IndexAddr:
		x := ex.get(fr, i.X)
		idx := ex.concInt(ex.get(fr, i.Index), "index")
		switch a := x.(type) {
		case SliceV:
			if idx < 0 || idx >= int64(a.n) {
				panic(&GoPanic{Kind: "index", Msg: fmt.Sprintf("index out of range [%d] with length %d", idx, a.n), Pos: ex.pos2s(i.Pos())})
			}
			fr.env[i] = a.b.cells[a.off+int(idx)]
		case *Cell:
			if a == nil {
				panic(&GoPanic{Kind: "nil", Msg: "nil array pointer", Pos: ex.pos2s(i.Pos())})
			}
			bk := a.v.(*Backing)
			if idx < 0 || idx >= int64(len(bk.cells)) {
				panic(&GoPanic{Kind: "index", Msg: fmt.Sprintf("index out of range [%d] with length %d", idx, len(bk.cells)), Pos: ex.pos2s(i.Pos())})
			}
			fr.env[i] = bk.cells[idx]
		default:
			panic(&GoPanic{Kind: "unsupported", Msg: fmt.Sprintf("IndexAddr on %T", x)})
		}
	case *ssa.Slice:
		fr.env[i] = ex.sliceOp(fr, i)
	case *ssa.MakeSlice:
		n := ex.concInt(ex.get(fr, i.Len), "make len")
		c := ex.concInt(ex.get(fr, i.Cap), "make cap")
		if n < 0 || c < n {
			panic(&GoPanic{Kind: "slice", Msg: fmt.Sprintf("makeslice: len %d cap %d out of range", n, c), Pos: ex.pos2s(i.Pos())})
		}
		if c > 1<<20 {
			panic(&GoPanic{Kind: "budget", Msg: fmt.Sprintf("makeslice of %d elements", c), Pos: ex.pos2s(i.Pos())})
		}
		fr.env[i] = ex.makeSlice(i.Type().Underlying().(*types.Slice).Elem(), int(n), int(c))
	case *ssa.MakeChan:
		fr.env[i] = &ChanV{cap: int(ex.concInt(ex.get(fr, i.Size), "chan size")), elem: i.Type().Underlying().(*types.Chan).Elem()}
	case *ssa.Send:
		ex.chanSend(ex.chanOf(ex.get(fr, i.Chan), "send", i), ex.get(fr, i.X), i)
	case *ssa.Select:
		fr.env[i] = ex.execSelect(fr, i)
	case *ssa.Go:
		c := i.Call
		args := make([]Value, 0, len(c.Args)+1)
		var thunk func()
		if c.IsInvoke() {
			ifc, ok := ex.get(fr, c.Value).(Iface)
			if !ok {
				panic(&GoPanic{Kind: "nil", Msg: "go: method call on nil interface", Pos: ex.pos2s(i.Pos())})
			}
			m := ex.prog.LookupMethod(ifc.t, c.Method.Pkg(), c.Method.Name())
			args = append(args, ifc.v)
			for _, a := range c.Args {
				args = append(args, ex.get(fr, a))
			}
			thunk = func() { ex.call(m, args, nil, i) }
		} else {
			for _, a := range c.Args {
				args = append(args, ex.get(fr, a))
			}
			switch f := c.Value.(type) {
			case *ssa.Function:
				thunk = func() { ex.call(f, args, nil, i) }
			case *ssa.Builtin:
				cc := c
				thunk = func() { ex.builtin(f, args, &cc, i) }
			default:
				fv := ex.get(fr, c.Value)
				thunk = func() { ex.callValue(fv, args, i) }
			}
		}
		ex.spawn(thunk)
	case *ssa.MakeMap:
		fr.env[i] = &MapV{m: map[interface{}]Value{}}
	case *ssa.Range:
		// iteration over a map (in insertion order: Go's order is unspecified, code that depends on it is
		// outside every claim) or over the runes of a string; the key snapshot is taken at the start
		switch x := ex.get(fr, i.X).(type) {
		case *MapV:
			it := &rangeIter{m: x}
			if x != nil {
				it.keys = append([]interface{}(nil), x.keys...)
			}
			fr.env[i] = it
		case string:
			fr.env[i] = &rangeIter{str: x, isStr: true}
		default:
			panic(&GoPanic{Kind: "unsupported", Msg: fmt.Sprintf("range over %T", x), Pos: ex.pos2s(i.Pos())})
		}
	case *ssa.Next:
		it := ex.get(fr, i.Iter).(*rangeIter)
		tt := i.Type().(*types.Tuple)
		if it.isStr {
			if it.pos >= len(it.str) {
				fr.env[i] = Tuple{false, int64(0), int64(0)}
				return
			}
			r, w := utf8.DecodeRuneInString(it.str[it.pos:])
			fr.env[i] = Tuple{true, int64(it.pos), int64(r)}
			it.pos += w
			return
		}
		for it.pos < len(it.keys) {
			k := it.keys[it.pos]
			it.pos++
			if v, ok := it.m.m[k]; ok { // entries deleted during the iteration are skipped
				fr.env[i] = Tuple{true, Value(k), v}
				return
			}
		}
		// exhausted: k and v are not read (their static types are Invalid when the loop ignores them)
		zk, zv := Value(nil), Value(nil)
		if tt.At(1).Type() != types.Typ[types.Invalid] {
			zk = ex.zero(tt.At(1).Type())
		}
		if tt.At(2).Type() != types.Typ[types.Invalid] {
			zv = ex.zero(tt.At(2).Type())
		}
		fr.env[i] = Tuple{false, zk, zv}
	case *ssa.MapUpdate:
		m := ex.get(fr, i.Map).(*MapV)
		if m == nil {
			panic(&GoPanic{Kind: "nil", Msg: "assignment to entry in nil map", Pos: ex.pos2s(i.Pos())})
		}
		k := ex.mapKey(ex.get(fr, i.Key))
		if _, ok := m.m[k]; !ok {
			m.keys = append(m.keys, k)
		}
		m.m[k] = ex.get(fr, i.Value)
	case *ssa.Lookup:
		x := ex.get(fr, i.X)
		switch m := x.(type) {
		case *MapV:
			k := ex.mapKey(ex.get(fr, i.Index))
			var v Value
			ok := false
			if m != nil {
				v, ok = m.m[k]
			}
			if !ok {
				v = ex.zero(i.X.Type().Underlying().(*types.Map).Elem())
			}
			if i.CommaOk {
				fr.env[i] = Tuple{v, ok}
			} else {
				fr.env[i] = v
			}
		default:
			panic(&GoPanic{Kind: "unsupported", Msg: fmt.Sprintf("Lookup on %T", x)})
		}
	case *ssa.Store:
		p := ex.get(fr, i.Addr).(*Cell)
		if p == nil {
			panic(&GoPanic{Kind: "nil", Msg: "nil pointer dereference (store)", Pos: ex.pos2s(i.Pos())})
		}
		ex.store(p, ex.get(fr, i.Val), ex.pos2s(i.Pos()))
	case *ssa.Defer:
		// the call target and arguments are evaluated now, the call runs at RunDefers (LIFO); defers are
		// not run while a panic unwinds (no recover() in the interpreted code)
		c := i.Call
		var thunk func()
		args := make([]Value, 0, len(c.Args)+1)
		if c.IsInvoke() {
			recv := ex.get(fr, c.Value)
			ifc, ok := recv.(Iface)
			if !ok {
				panic(&GoPanic{Kind: "nil", Msg: "deferred method call on nil interface", Pos: ex.pos2s(i.Pos())})
			}
			m := ex.prog.LookupMethod(ifc.t, c.Method.Pkg(), c.Method.Name())
			args = append(args, ifc.v)
			for _, a := range c.Args {
				args = append(args, ex.get(fr, a))
			}
			thunk = func() { ex.call(m, args, nil, i) }
		} else {
			for _, a := range c.Args {
				args = append(args, ex.get(fr, a))
			}
			switch f := c.Value.(type) {
			case *ssa.Function:
				thunk = func() { ex.call(f, args, nil, i) }
			case *ssa.Builtin:
				cc := c
				thunk = func() { ex.builtin(f, args, &cc, i) }
			default:
				fv := ex.get(fr, c.Value)
				thunk = func() { ex.callValue(fv, args, i) }
			}
		}
		fr.defers = append(fr.defers, thunk)
	case *ssa.RunDefers:
		for k := len(fr.defers) - 1; k >= 0; k-- {
			fr.defers[k]()
		}
		fr.defers = nil
	case *ssa.DebugRef:
	default:
		panic(&GoPanic{Kind: "unsupported", Msg: fmt.Sprintf("instruction %T in %s", ins, fr.fn.String()), Pos: ex.pos2s(ins.Pos())})
	}
}

func (ex *Exec) mapKey(v Value) interface{} {
	v = ex.normInt(v)
	switch k := v.(type) {
	case string, int64, bool:
		return k
	case *Cell:
		return k
	case *Term:
		return ex.concretise(k, "map key")
	}
	panic(&GoPanic{Kind: "unsupported", Msg: fmt.Sprintf("map key of type %T", v)})
}

func (ex *Exec) makeSlice(elem types.Type, n, c int) SliceV {
	bk := &Backing{cells: make([]*Cell, c), elem: elem}
	for k := range bk.cells {
		bk.cells[k] = ex.newCell(elem, "elem")
	}
	return SliceV{b: bk, off: 0, n: n, c: c}
}

func (ex *Exec) sliceOp(fr *frame, i *ssa.Slice) Value {
	x := ex.get(fr, i.X)
	var lo, hi, mx int64 = 0, -1, -1
	if i.Low != nil {
		lo = ex.concInt(ex.get(fr, i.Low), "slice low")
	}
	if i.High != nil {
		hi = ex.concInt(ex.get(fr, i.High), "slice high")
	}
	if i.Max != nil {
		mx = ex.concInt(ex.get(fr, i.Max), "slice max")
	}
	pos := ex.pos2s(i.Pos())
	switch a := x.(type) {
	case SliceV:
		if hi < 0 {
			hi = int64(a.n)
		}
		if mx < 0 {
			mx = int64(a.c)
		}
		if lo < 0 || lo > hi || hi > mx || mx > int64(a.c) {
			panic(&GoPanic{Kind: "slice", Msg: fmt.Sprintf("slice bounds out of range [%d:%d] with capacity %d", lo, hi, a.c), Pos: pos})
		}
		if a.b == nil {
			return SliceV{}
		}
		return SliceV{b: a.b, off: a.off + int(lo), n: int(hi - lo), c: int(mx - lo)}
	case *Cell:
		if a == nil {
			panic(&GoPanic{Kind: "nil", Msg: "slice of nil array pointer", Pos: pos})
		}
		bk := a.v.(*Backing)
		L := int64(len(bk.cells))
		if hi < 0 {
			hi = L
		}
		if mx < 0 {
			mx = L
		}
		if lo < 0 || lo > hi || hi > mx || mx > L {
			panic(&GoPanic{Kind: "slice", Msg: "slice bounds out of range", Pos: pos})
		}
		return SliceV{b: bk, off: int(lo), n: int(hi - lo), c: int(mx - lo)}
	case string:
		if hi < 0 {
			hi = int64(len(a))
		}
		if lo < 0 || lo > hi || hi > int64(len(a)) {
			panic(&GoPanic{Kind: "slice", Msg: "string slice bounds out of range", Pos: pos})
		}
		return a[lo:hi]
	}
	panic(&GoPanic{Kind: "unsupported", Msg: fmt.Sprintf("Slice on %T", x)})
}

func (ex *Exec) doCall(fr *frame, c *ssa.CallCommon, site ssa.Instruction) Value {
	args := make([]Value, 0, len(c.Args)+1)
	if c.IsInvoke() {
		recv := ex.get(fr, c.Value)
		ifc, ok := recv.(Iface)
		if !ok {
			panic(&GoPanic{Kind: "nil", Msg: "method call on nil interface (" + c.Method.Name() + ")", Pos: ex.pos2s(site.Pos())})
		}
		if e, ok := ifc.v.(*ErrObj); ok {
			if c.Method.Name() == "Error" {
				return e.msg
			}
			if c.Method.Name() == "Unwrap" {
				return nil
			}
		}
		if h, ok := ifc.v.(*HostObj); ok {
			for _, a := range c.Args {
				args = append(args, ex.get(fr, a))
			}
			return h.invoke(ex, c.Method.Name(), args)
		}
		m := ex.prog.LookupMethod(ifc.t, c.Method.Pkg(), c.Method.Name())
		if m == nil {
			panic(&GoPanic{Kind: "unsupported", Msg: "method not found " + c.Method.Name() + " on " + ifc.t.String()})
		}
		args = append(args, ifc.v)
		for _, a := range c.Args {
			args = append(args, ex.get(fr, a))
		}
		return ex.call(m, args, nil, site)
	}
	for _, a := range c.Args {
		args = append(args, ex.get(fr, a))
	}
	switch f := c.Value.(type) {
	case *ssa.Function:
		return ex.call(f, args, nil, site)
	case *ssa.Builtin:
		return ex.builtin(f, args, c, site)
	}
	fv := ex.get(fr, c.Value)
	return ex.callValue(fv, args, site)
}

func (ex *Exec) callValue(fv Value, args []Value, site ssa.Instruction) Value {
	switch f := fv.(type) {
	case *Closure:
		if f == nil {
			break
		}
		f.calls++
		return ex.call(f.fn, args, f.fv, site)
	case *ssa.Function:
		if f == nil {
			break
		}
		return ex.call(f, args, nil, site)
	case *HostFunc:
		return f.fn(ex, args)
	}
	pos := "?"
	if site != nil {
		pos = ex.pos2s(site.Pos())
	}
	panic(&GoPanic{Kind: "nil", Msg: "call of nil func value", Pos: pos})
}

func (ex *Exec) builtin(f *ssa.Builtin, args []Value, c *ssa.CallCommon, site ssa.Instruction) Value {
	switch f.Name() {
	case "len":
		switch a := args[0].(type) {
		case SliceV:
			return int64(a.n)
		case string:
			return int64(len(a))
		case *MapV:
			if a == nil {
				return int64(0)
			}
			return int64(len(a.m))
		case ArrayV:
			return int64(len(a))
		case *Cell:
			return int64(len(a.v.(*Backing).cells))
		case *ChanV:
			if a == nil {
				return int64(0)
			}
			return int64(len(a.buf))
		}
	case "cap":
		switch a := args[0].(type) {
		case SliceV:
			return int64(a.c)
		case *ChanV:
			if a == nil {
				return int64(0)
			}
			return int64(a.cap)
		}
	case "append":
		s := args[0].(SliceV)
		var add []Value
		switch t := args[1].(type) {
		case SliceV:
			for k := 0; k < t.n; k++ {
				add = append(add, ex.load(t.b.cells[t.off+k]))
			}
		case string:
			for k := 0; k < len(t); k++ {
				add = append(add, int64(t[k]))
			}
		}
		if len(add) == 0 {
			return s
		}
		elem := c.Args[0].Type().Underlying().(*types.Slice).Elem()
		if s.b != nil && s.n+len(add) <= s.c {
			for k, v := range add {
				ex.store(s.b.cells[s.off+s.n+k], v, ex.pos2s(site.Pos()))
			}
			return SliceV{b: s.b, off: s.off, n: s.n + len(add), c: s.c}
		}
		nc := s.c * 2
		if nc < s.n+len(add) {
			nc = s.n + len(add)
		}
		ns := ex.makeSlice(elem, s.n+len(add), nc)
		for k := 0; k < s.n; k++ {
			ns.b.cells[k].v = ex.cloneStorage(ex.load(s.b.cells[s.off+k]), ns.b.cells[k])
		}
		for k, v := range add {
			ex.store(ns.b.cells[s.n+k], v, "append")
		}
		return ns
	case "copy":
		d := args[0].(SliceV)
		var src []Value
		switch t := args[1].(type) {
		case SliceV:
			for k := 0; k < t.n; k++ {
				src = append(src, ex.load(t.b.cells[t.off+k]))
			}
		case string:
			for k := 0; k < len(t); k++ {
				src = append(src, int64(t[k]))
			}
		}
		n := len(src)
		if d.n < n {
			n = d.n
		}
		for k := 0; k < n; k++ {
			ex.store(d.b.cells[d.off+k], src[k], ex.pos2s(site.Pos()))
		}
		return int64(n)
	case "print", "println":
		return nil
	case "delete":
		if m, _ := args[0].(*MapV); m != nil {
			k := ex.mapKey(args[1])
			if _, ok := m.m[k]; ok {
				delete(m.m, k)
				for j, kk := range m.keys {
					if kk == k {
						m.keys = append(m.keys[:j:j], m.keys[j+1:]...)
						break
					}
				}
			}
		}
		return nil
	case "clear":
		switch a := args[0].(type) {
		case *MapV:
			if a != nil {
				a.m = map[interface{}]Value{}
				a.keys = nil
			}
			return nil
		case SliceV:
			for k := 0; k < a.n; k++ {
				ex.store(a.b.cells[a.off+k], ex.zero(a.b.elem), ex.pos2s(site.Pos()))
			}
			return nil
		}
	case "recover":
		if p := ex.panicking; p != nil {
			ex.panicking = nil
			if p.Val != nil {
				return p.Val
			}
			return Iface{t: types.Universe.Lookup("error").Type(), v: &ErrObj{msg: "runtime error: " + p.Msg}}
		}
		return nil
	case "Sizeof", "Alignof":
		if c != nil && len(c.Args) == 1 {
			sz := types.SizesFor("gc", "amd64")
			if f.Name() == "Sizeof" {
				return sz.Sizeof(c.Args[0].Type())
			}
			return sz.Alignof(c.Args[0].Type())
		}
	case "close":
		c, _ := args[0].(*ChanV)
		if c == nil || c.closed {
			panic(&GoPanic{Kind: "explicit", Msg: "close of nil or closed channel", Pos: ex.pos2s(site.Pos())})
		}
		c.closed = true
		return nil
	case "min", "max":
		acc := args[0]
		for _, a := range args[1:] {
			var c Value
			if f.Name() == "min" {
				c = ex.binop(token.LSS, a, acc, c0type(site, args), site.Pos())
			} else {
				c = ex.binop(token.GTR, a, acc, c0type(site, args), site.Pos())
			}
			acc = ex.iteValue(c, a, acc)
		}
		return acc
	}
	panic(&GoPanic{Kind: "unsupported", Msg: "builtin " + f.Name()})
}

func c0type(site ssa.Instruction, args []Value) types.Type {
	if c, ok := site.(*ssa.Call); ok {
		return c.Call.Args[0].Type()
	}
	return types.Typ[types.Int]
}

// cloneStorage stores v into an existing fresh cell and returns what the cell should hold.
func (ex *Exec) cloneStorage(v Value, dst *Cell) Value {
	switch dst.v.(type) {
	case *StructObj, *Backing:
		ex.store(dst, v, "clone")
		return dst.v
	}
	return v
}

func (ex *Exec) iteValue(c Value, a, b Value) Value {
	c = ex.normInt(c)
	if cb, ok := c.(bool); ok {
		if cb {
			return a
		}
		return b
	}
	ct := c.(*Term)
	switch x := a.(type) {
	case F:
		y := b.(F)
		r := F{T: ex.b.Ite(ct, x.T, y.T)}
		if x.D != nil || y.D != nil {
			r.D = ex.b.Ite(ct, ex.defTerm(x), ex.defTerm(y))
			if r.D == ex.b.True {
				r.D = nil
			}
		}
		return r
	case int64, *Term:
		if _, isB := a.(bool); isB {
			break
		}
		ta, tb := ex.anyTerm(a), ex.anyTerm(b)
		return ex.normInt(ex.b.Ite(ct, ta, tb))
	case bool:
		return ex.normInt(ex.b.Ite(ct, ex.boolTerm(a), ex.boolTerm(b)))
	}
	panic(&GoPanic{Kind: "unsupported", Msg: fmt.Sprintf("ite over %T", a)})
}

func (ex *Exec) anyTerm(v Value) *Term {
	switch x := v.(type) {
	case int64:
		return ex.b.Int(x)
	case bool:
		return ex.b.Bool(x)
	case *Term:
		return x
	}
	panic(&GoPanic{Kind: "unsupported", Msg: fmt.Sprintf("anyTerm of %T", v)})
}

func (ex *Exec) unop(i *ssa.UnOp, x Value) Value {
	switch i.Op {
	case token.ARROW:
		v, ok := ex.chanRecv(ex.chanOf(x, "receive", i), i)
		if i.CommaOk {
			return Tuple{v, ok}
		}
		return v
	case token.MUL:
		p := x.(*Cell)
		if p == nil {
			panic(&GoPanic{Kind: "nil", Msg: "nil pointer dereference", Pos: ex.pos2s(i.Pos())})
		}
		return ex.load(p)
	case token.NOT:
		x = ex.normInt(x)
		switch b := x.(type) {
		case bool:
			return !b
		case *Term:
			return ex.normInt(ex.b.Not(b))
		}
	case token.SUB:
		x = ex.normInt(x)
		switch v := x.(type) {
		case int64:
			return -v
		case *Term:
			return ex.b.INeg(v)
		case F:
			return F{T: ex.b.RNeg(v.T), D: v.D}
		}
	}
	panic(&GoPanic{Kind: "unsupported", Msg: fmt.Sprintf("unop %s on %T", i.Op, x)})
}

func (ex *Exec) convert(x Value, from, to types.Type, pos token.Pos) Value {
	x = ex.normInt(x)
	switch {
	case isIntT(from) && isFloatT(to):
		switch v := x.(type) {
		case int64:
			return F{T: ex.b.RatI(v, 1)}
		case *Term:
			return F{T: ex.b.ToReal(v)}
		}
	case isFloatT(from) && isIntT(to):
		f := x.(F)
		return ex.normInt(ex.b.ToIntTrunc(f.T))
	case isIntT(from) && isIntT(to):
		fb, tb := under(from).(*types.Basic), under(to).(*types.Basic)
		same := func(b *types.Basic) bool {
			switch b.Kind() {
			case types.Int, types.Int64, types.UntypedInt:
				return true
			}
			return false
		}
		if same(fb) && same(tb) {
			return x
		}
		v, ok := x.(int64)
		if !ok {
			// narrowing / sign-changing conversions of symbolic integers are not modelled: inconclusive, never guessed
			panic(&GoPanic{Kind: "unsupported", Msg: "symbolic integer conversion " + from.String() + " -> " + to.String(), Pos: ex.pos2s(pos)})
		}
		switch tb.Kind() {
		case types.Int8:
			return int64(int8(v))
		case types.Int16:
			return int64(int16(v))
		case types.Int32:
			return int64(int32(v))
		case types.Uint8:
			return int64(uint8(v))
		case types.Uint16:
			return int64(uint16(v))
		case types.Uint32:
			return int64(uint32(v))
		}
		return v
	case isFloatT(from) && isFloatT(to):
		return x
	case isStringT(from) && isStringT(to):
		return x
	}
	panic(&GoPanic{Kind: "unsupported", Msg: "convert " + from.String() + " -> " + to.String(), Pos: ex.pos2s(pos)})
}

func (ex *Exec) typeAssert(i *ssa.TypeAssert, x Value) Value {
	ok := false
	var res Value
	if ifc, isI := x.(Iface); isI {
		if types.IsInterface(i.AssertedType) {
			it := i.AssertedType.Underlying().(*types.Interface)
			if ifc.t != nil && types.Implements(ifc.t, it) {
				ok, res = true, x
			} else if _, isErr := ifc.v.(*ErrObj); isErr && it.NumMethods() <= 1 {
				ok, res = true, x
			}
		} else if ifc.t != nil && types.Identical(ifc.t, i.AssertedType) {
			ok, res = true, ifc.v
		}
	}
	if i.CommaOk {
		if !ok {
			res = ex.zero(i.AssertedType)
		}
		return Tuple{res, ok}
	}
	if !ok {
		got := "nil"
		if ifc, isI := x.(Iface); isI && ifc.t != nil {
			got = ifc.t.String()
		}
		panic(&GoPanic{Kind: "typeassert", Msg: "interface conversion: interface is " + got + ", not " + i.AssertedType.String(), Pos: ex.pos2s(i.Pos())})
	}
	return res
}

/* ---------------- binary operators ---------------- */

func (ex *Exec) binop(op token.Token, x, y Value, xt types.Type, pos token.Pos) Value {
	x, y = ex.normInt(x), ex.normInt(y)
	switch a := x.(type) {
	case int64:
		switch b := y.(type) {
		case int64:
			return ex.intOpConcrete(op, a, b, xt, pos)
		case *Term:
			return ex.intOpSym(op, ex.b.Int(a), b, pos)
		}
	case *Term:
		if a.sort == SBool {
			return ex.boolOp(op, a, ex.boolTerm(y))
		}
		switch b := y.(type) {
		case int64:
			return ex.intOpSym(op, a, ex.b.Int(b), pos)
		case *Term:
			return ex.intOpSym(op, a, b, pos)
		}
	case bool:
		switch b := y.(type) {
		case bool:
			switch op {
			case token.EQL:
				return a == b
			case token.NEQ:
				return a != b
			case token.AND:
				return a && b
			case token.OR:
				return a || b
			}
		case *Term:
			return ex.boolOp(op, ex.b.Bool(a), b)
		}
	case F:
		return ex.floatOp(op, a, y.(F))
	case string:
		b := y.(string)
		switch op {
		case token.EQL:
			return a == b
		case token.NEQ:
			return a != b
		case token.ADD:
			return a + b
		case token.LSS:
			return a < b
		case token.GTR:
			return a > b
		}
	}
	// struct / array equality: field-wise
	if op == token.EQL || op == token.NEQ {
		var xs, ys []Value
		switch a := x.(type) {
		case StructV:
			if b, ok := y.(StructV); ok {
				xs, ys = a, b
			}
		case ArrayV:
			if b, ok := y.(ArrayV); ok {
				xs, ys = a, b
			}
		}
		if xs != nil && len(xs) == len(ys) {
			acc := ex.b.True
			var ft func(i int) types.Type
			if st, ok := under(xt).(*types.Struct); ok {
				ft = func(i int) types.Type { return st.Field(i).Type() }
			} else if at, ok := under(xt).(*types.Array); ok {
				ft = func(int) types.Type { return at.Elem() }
			}
			for i := range xs {
				var t types.Type
				if ft != nil {
					t = ft(i)
				}
				e := ex.binop(token.EQL, xs[i], ys[i], t, pos)
				acc = ex.b.And(acc, ex.anyTerm(ex.normInt(e)))
			}
			if op == token.NEQ {
				acc = ex.b.Not(acc)
			}
			return ex.normInt(acc)
		}
	}
	// reference-like comparisons
	if op == token.EQL || op == token.NEQ {
		eq := ex.refEqual(x, y)
		if op == token.NEQ {
			eq = !eq
		}
		return eq
	}
	panic(&GoPanic{Kind: "unsupported", Msg: fmt.Sprintf("binop %s on %T,%T", op, x, y), Pos: ex.pos2s(pos)})
}

func (ex *Exec) refEqual(x, y Value) bool {
	if isNilValue(x) || isNilValue(y) {
		return isNilValue(x) && isNilValue(y)
	}
	switch a := x.(type) {
	case *Cell:
		b, ok := y.(*Cell)
		return ok && a == b
	case Iface:
		b, ok := y.(Iface)
		if !ok {
			return false
		}
		if a.t == nil || b.t == nil {
			return a.v == b.v
		}
		if !types.Identical(a.t, b.t) {
			return false
		}
		switch av := a.v.(type) {
		case *Cell:
			bv, _ := b.v.(*Cell)
			return av == bv
		case int64:
			bv, ok := b.v.(int64)
			return ok && av == bv
		case string:
			bv, ok := b.v.(string)
			return ok && av == bv
		case bool:
			bv, ok := b.v.(bool)
			return ok && av == bv
		}
		return false
	case *Closure:
		return false
	}
	panic(&GoPanic{Kind: "unsupported", Msg: fmt.Sprintf("equality on %T,%T", x, y)})
}

func (ex *Exec) intOpConcrete(op token.Token, a, b int64, xt types.Type, pos token.Pos) Value {
	switch op {
	case token.ADD:
		return a + b
	case token.SUB:
		return a - b
	case token.MUL:
		return a * b
	case token.QUO:
		if b == 0 {
			panic(&GoPanic{Kind: "divzero", Msg: "integer divide by zero", Pos: ex.pos2s(pos)})
		}
		return a / b
	case token.REM:
		if b == 0 {
			panic(&GoPanic{Kind: "divzero", Msg: "integer divide by zero", Pos: ex.pos2s(pos)})
		}
		return a % b
	case token.EQL:
		return a == b
	case token.NEQ:
		return a != b
	case token.LSS:
		return a < b
	case token.LEQ:
		return a <= b
	case token.GTR:
		return a > b
	case token.GEQ:
		return a >= b
	case token.AND:
		return a & b
	case token.OR:
		return a | b
	case token.XOR:
		return a ^ b
	case token.SHL:
		return a << uint64(b)
	case token.SHR:
		return a >> uint64(b)
	case token.AND_NOT:
		return a &^ b
	}
	panic(&GoPanic{Kind: "unsupported", Msg: "int op " + op.String()})
}

func (ex *Exec) intOpSym(op token.Token, a, b *Term, pos token.Pos) Value {
	tb := ex.b
	var r *Term
	switch op {
	case token.ADD:
		r = tb.IAdd(a, b)
	case token.SUB:
		r = tb.ISub(a, b)
	case token.MUL:
		r = tb.IMul(a, b)
	case token.EQL:
		r = tb.Eq(a, b)
	case token.NEQ:
		r = tb.Not(tb.Eq(a, b))
	case token.LSS:
		r = tb.ILt(a, b)
	case token.LEQ:
		r = tb.ILe(a, b)
	case token.GTR:
		r = tb.ILt(b, a)
	case token.GEQ:
		r = tb.ILe(b, a)
	case token.QUO, token.REM:
		av := ex.concretise(a, "dividend")
		bv := ex.concretise(b, "divisor")
		return ex.intOpConcrete(op, av, bv, nil, pos)
	default:
		panic(&GoPanic{Kind: "unsupported", Msg: "symbolic int op " + op.String(), Pos: ex.pos2s(pos)})
	}
	return ex.normInt(r)
}

func (ex *Exec) boolOp(op token.Token, a, b *Term) Value {
	switch op {
	case token.EQL:
		return ex.normInt(ex.b.Eq(a, b))
	case token.NEQ:
		return ex.normInt(ex.b.Not(ex.b.Eq(a, b)))
	case token.AND:
		return ex.normInt(ex.b.And(a, b))
	case token.OR:
		return ex.normInt(ex.b.Or(a, b))
	}
	panic(&GoPanic{Kind: "unsupported", Msg: "bool op " + op.String()})
}

func (ex *Exec) floatOp(op token.Token, a, b F) Value {
	tb := ex.b
	d := ex.andD(a.D, b.D)
	switch op {
	case token.ADD:
		return F{T: tb.RAdd(a.T, b.T), D: d}
	case token.SUB:
		return F{T: tb.RSub(a.T, b.T), D: d}
	case token.MUL:
		m := tb.RMul(a.T, b.T)
		if a.T == b.T && m.op == "rmul" {
			// ground lemma: a square is non-negative
			ex.axiomT(m, "sq"+strconv.Itoa(m.id), tb.RLe(tb.Rat(ratZero), m))
		}
		return F{T: m, D: d}
	case token.QUO:
		nz := tb.Not(tb.Eq(b.T, tb.Rat(ratZero)))
		if nz != tb.True {
			d = ex.andD(d, nz)
		}
		return F{T: tb.RDiv(a.T, b.T), D: d}
	}
	// comparisons follow IEEE on undefined (NaN) operands: every ordered comparison and == is false, != is true
	var c *Term
	switch op {
	case token.EQL, token.NEQ:
		c = tb.Eq(a.T, b.T)
	case token.LSS:
		c = tb.RLt(a.T, b.T)
	case token.LEQ:
		c = tb.RLe(a.T, b.T)
	case token.GTR:
		c = tb.RLt(b.T, a.T)
	case token.GEQ:
		c = tb.RLe(b.T, a.T)
	default:
		panic(&GoPanic{Kind: "unsupported", Msg: "float op " + op.String()})
	}
	if d != nil {
		c = tb.And(d, c)
	}
	if op == token.NEQ {
		c = tb.Not(c)
	}
	return ex.normInt(c)
}
