package main

// Intrinsics: the harness runtime (zzvrt), math stubs with ground axioms,
// fmt/errors stubs, gonum sampler stubs.

import (
	"errors"
	"fmt"
	"go/types"
	"math"
	"math/big"
	"sort"
	"strconv"
	"strings"
	"time"

	"golang.org/x/tools/go/ssa"
)

const vrtPath = "github.com/sahandsafizadeh/qeep/zzvrt"

type intrinsicFn func(ex *Exec, fn *ssa.Function, args []Value, site ssa.Instruction) Value

var intrinsics map[string]intrinsicFn
var pureIntrinsics map[string]bool

func init() {
	intrinsics = map[string]intrinsicFn{
		"fmt.Errorf":       inErrorf,
		"fmt.Sprintf":      inSprintf,
		"errors.New":       inErrorf,
		"sort.Slice":       inSortSlice,
		"sort.SliceStable": inSortSlice,
		"sort.Ints": func(ex *Exec, _ *ssa.Function, a []Value, _ ssa.Instruction) Value {
			s := a[0].(SliceV)
			ex.sortCells(s, func(i, j int) bool {
				return ex.concInt(ex.load(s.b.cells[s.off+i]), "sort.Ints") < ex.concInt(ex.load(s.b.cells[s.off+j]), "sort.Ints")
			})
			return nil
		},
		"fmt.Sprint": func(ex *Exec, _ *ssa.Function, a []Value, _ ssa.Instruction) Value {
			return fmt.Sprint(ex.hostArgs(a[0])...)
		},
		"fmt.Sprintln": func(ex *Exec, _ *ssa.Function, a []Value, _ ssa.Instruction) Value {
			return fmt.Sprintln(ex.hostArgs(a[0])...)
		},
		"(*sync.Mutex).Lock":      func(*Exec, *ssa.Function, []Value, ssa.Instruction) Value { return nil },
		"(*sync.Mutex).Unlock":    func(*Exec, *ssa.Function, []Value, ssa.Instruction) Value { return nil },
		"(*sync.Mutex).TryLock":   func(*Exec, *ssa.Function, []Value, ssa.Instruction) Value { return true },
		"(*sync.RWMutex).Lock":    func(*Exec, *ssa.Function, []Value, ssa.Instruction) Value { return nil },
		"(*sync.RWMutex).Unlock":  func(*Exec, *ssa.Function, []Value, ssa.Instruction) Value { return nil },
		"(*sync.RWMutex).RLock":   func(*Exec, *ssa.Function, []Value, ssa.Instruction) Value { return nil },
		"(*sync.RWMutex).RUnlock": func(*Exec, *ssa.Function, []Value, ssa.Instruction) Value { return nil },
		"(*sync.Once).Do": func(ex *Exec, _ *ssa.Function, a []Value, site ssa.Instruction) Value {
			c := a[0].(*Cell)
			if !ex.onceDone[c] {
				ex.onceDone[c] = true
				ex.callValue(a[1], nil, site)
			}
			return nil
		},
		"math/rand.Seed":             func(ex *Exec, _ *ssa.Function, a []Value, _ ssa.Instruction) Value { ex.reseeds++; return nil },
		"golang.org/x/exp/rand.Seed": func(ex *Exec, _ *ssa.Function, a []Value, _ ssa.Instruction) Value { ex.reseeds++; return nil },
		"time.Now":                   func(ex *Exec, _ *ssa.Function, a []Value, _ ssa.Instruction) Value { return ex.zero(timeType(ex)) },
		"(time.Time).Unix":           func(ex *Exec, _ *ssa.Function, a []Value, _ ssa.Instruction) Value { return int64(1700000000) },
		"(time.Time).UnixNano":       func(ex *Exec, _ *ssa.Function, a []Value, _ ssa.Instruction) Value { return int64(1700000000000000000) },
		"math/rand.Float64": func(ex *Exec, _ *ssa.Function, a []Value, _ ssa.Instruction) Value {
			return ex.draw("uniform", F{T: ex.b.Rat(ratZero)}, F{T: ex.b.Rat(ratOne)})
		},
		"math/rand.NormFloat64": func(ex *Exec, _ *ssa.Function, a []Value, _ ssa.Instruction) Value {
			return ex.draw("normal", F{T: ex.b.Rat(ratZero)}, F{T: ex.b.Rat(ratOne)})
		},
		"math/rand/v2.Float64": func(ex *Exec, _ *ssa.Function, a []Value, _ ssa.Instruction) Value {
			return ex.draw("uniform", F{T: ex.b.Rat(ratZero)}, F{T: ex.b.Rat(ratOne)})
		},
		"math/rand/v2.NormFloat64": func(ex *Exec, _ *ssa.Function, a []Value, _ ssa.Instruction) Value {
			return ex.draw("normal", F{T: ex.b.Rat(ratZero)}, F{T: ex.b.Rat(ratOne)})
		},
		"golang.org/x/exp/rand.Float64": func(ex *Exec, _ *ssa.Function, a []Value, _ ssa.Instruction) Value {
			return ex.draw("uniform", F{T: ex.b.Rat(ratZero)}, F{T: ex.b.Rat(ratOne)})
		},
		"golang.org/x/exp/rand.NormFloat64": func(ex *Exec, _ *ssa.Function, a []Value, _ ssa.Instruction) Value {
			return ex.draw("normal", F{T: ex.b.Rat(ratZero)}, F{T: ex.b.Rat(ratOne)})
		},
		"fmt.Println": func(*Exec, *ssa.Function, []Value, ssa.Instruction) Value { return Tuple{int64(0), nil} },
		"fmt.Printf":  func(*Exec, *ssa.Function, []Value, ssa.Instruction) Value { return Tuple{int64(0), nil} },

		"strconv.Itoa": func(ex *Exec, _ *ssa.Function, a []Value, _ ssa.Instruction) Value {
			return strconv.FormatInt(ex.concInt(a[0], "Itoa"), 10)
		},

		"math.Exp":  func(ex *Exec, _ *ssa.Function, a []Value, _ ssa.Instruction) Value { return ex.mExp(a[0].(F)) },
		"math.Log":  func(ex *Exec, _ *ssa.Function, a []Value, _ ssa.Instruction) Value { return ex.mLog(a[0].(F)) },
		"math.Sin":  func(ex *Exec, _ *ssa.Function, a []Value, _ ssa.Instruction) Value { return ex.mTrig("sin", a[0].(F)) },
		"math.Cos":  func(ex *Exec, _ *ssa.Function, a []Value, _ ssa.Instruction) Value { return ex.mTrig("cos", a[0].(F)) },
		"math.Tan":  func(ex *Exec, _ *ssa.Function, a []Value, _ ssa.Instruction) Value { return ex.mTrig("tan", a[0].(F)) },
		"math.Sinh": func(ex *Exec, _ *ssa.Function, a []Value, _ ssa.Instruction) Value { return ex.mHyp("sinh", a[0].(F)) },
		"math.Cosh": func(ex *Exec, _ *ssa.Function, a []Value, _ ssa.Instruction) Value { return ex.mHyp("cosh", a[0].(F)) },
		"math.Tanh": func(ex *Exec, _ *ssa.Function, a []Value, _ ssa.Instruction) Value { return ex.mHyp("tanh", a[0].(F)) },
		"math.Sqrt": func(ex *Exec, _ *ssa.Function, a []Value, _ ssa.Instruction) Value { return ex.mSqrt(a[0].(F)) },
		"math.Float64bits": func(ex *Exec, _ *ssa.Function, a []Value, _ ssa.Instruction) Value {
			// only on constants (cache keys and the like); the bit pattern of a symbolic value is not encoded
			x := a[0].(F)
			switch x.T.op {
			case "fconst":
				return int64(math.Float64bits(x.T.f64()))
			case "rconst":
				return int64(math.Float64bits(ratF(x.T.rat)))
			}
			panic(&GoPanic{Kind: "unsupported", Msg: "math.Float64bits of a symbolic value"})
		},
		"math.Signbit": func(ex *Exec, _ *ssa.Function, a []Value, _ ssa.Instruction) Value {
			// bit-precise mode: the IEEE sign bit (distinguishes -0 from +0); real-number model: x < 0 (no signed zero)
			x := a[0].(F)
			if x.T.sort == SFloat {
				if x.T.op == "fconst" {
					return math.Signbit(x.T.f64())
				}
				return ex.normInt(ex.b.app("fisneg", SBool, x.T))
			}
			return ex.normInt(ex.b.RLt(x.T, ex.b.Rat(ratZero)))
		},
		"math.Pow": func(ex *Exec, _ *ssa.Function, a []Value, _ ssa.Instruction) Value {
			return ex.mPow(a[0].(F), a[1].(F))
		},
		"math.Abs": func(ex *Exec, _ *ssa.Function, a []Value, _ ssa.Instruction) Value {
			x := a[0].(F)
			c := ex.b.RLe(ex.b.Rat(ratZero), x.T)
			return F{T: ex.b.Ite(c, x.T, ex.b.RNeg(x.T)), D: x.D}
		},
		"math.Max": func(ex *Exec, _ *ssa.Function, a []Value, _ ssa.Instruction) Value {
			x, y := a[0].(F), a[1].(F)
			return F{T: ex.b.Ite(ex.b.RLe(y.T, x.T), x.T, y.T), D: ex.andD(x.D, y.D)}
		},
		"math.Min": func(ex *Exec, _ *ssa.Function, a []Value, _ ssa.Instruction) Value {
			x, y := a[0].(F), a[1].(F)
			return F{T: ex.b.Ite(ex.b.RLe(x.T, y.T), x.T, y.T), D: ex.andD(x.D, y.D)}
		},
		"math.Inf": func(ex *Exec, _ *ssa.Function, a []Value, _ ssa.Instruction) Value {
			s := ex.concInt(a[0], "math.Inf sign")
			if s >= 0 {
				return F{T: ex.b.PInf}
			}
			return F{T: ex.b.NInf}
		},
		"math.IsNaN": func(ex *Exec, _ *ssa.Function, a []Value, _ ssa.Instruction) Value {
			x := a[0].(F)
			return ex.normInt(ex.b.Not(ex.defTerm(x)))
		},
		"math.IsInf": func(ex *Exec, _ *ssa.Function, a []Value, _ ssa.Instruction) Value { return false },

		"(gonum.org/v1/gonum/stat/distuv.Uniform).Rand": func(ex *Exec, _ *ssa.Function, a []Value, _ ssa.Instruction) Value {
			s := a[0].(StructV)
			return ex.draw("uniform", s[0].(F), s[1].(F))
		},
		"(gonum.org/v1/gonum/stat/distuv.Normal).Rand": func(ex *Exec, _ *ssa.Function, a []Value, _ ssa.Instruction) Value {
			s := a[0].(StructV)
			return ex.draw("normal", s[0].(F), s[1].(F))
		},
	}
	pureIntrinsics = map[string]bool{}
	for k := range intrinsics {
		if strings.HasPrefix(k, "math.") {
			pureIntrinsics[k] = true
		}
	}
	for name, f := range vrtIntrinsics {
		intrinsics[vrtPath+"."+name] = f
	}
}

// hostValue converts an interpreted value into a Go value for real formatting (keys built with
// fmt.Sprint / Sprintf must be faithful; symbolic integers are concretised, symbolic floats print as "?").
func (ex *Exec) hostValue(v Value, depth int) interface{} {
	if depth > 6 {
		return "..."
	}
	v = ex.normInt(v)
	switch x := v.(type) {
	case nil:
		return nil
	case int64:
		return int(x)
	case bool, string:
		return x
	case *Term:
		if x.sort == SInt {
			return int(ex.concretise(x, "formatted integer"))
		}
		return "?"
	case F:
		if x.T.op == "rconst" {
			f, _ := x.T.rat.Float64()
			return f
		}
		return "?"
	case Iface:
		if e, ok := x.v.(*ErrObj); ok {
			return errors.New(e.msg)
		}
		return ex.hostValue(x.v, depth+1)
	case SliceV:
		out := make([]interface{}, x.n)
		for k := 0; k < x.n; k++ {
			out[k] = ex.hostValue(ex.load(x.b.cells[x.off+k]), depth+1)
		}
		return out
	case StructV:
		out := make([]interface{}, len(x))
		for k := range x {
			out[k] = ex.hostValue(x[k], depth+1)
		}
		return out
	case ArrayV:
		out := make([]interface{}, len(x))
		for k := range x {
			out[k] = ex.hostValue(x[k], depth+1)
		}
		return out
	case *Cell:
		return fmt.Sprintf("%p", x)
	}
	return fmt.Sprintf("<%T>", v)
}

func (ex *Exec) hostArgs(v Value) []interface{} {
	s, ok := v.(SliceV)
	if !ok {
		return nil
	}
	out := make([]interface{}, s.n)
	for k := 0; k < s.n; k++ {
		out[k] = ex.hostValue(ex.load(s.b.cells[s.off+k]), 0)
	}
	return out
}

// sortCells: stable insertion sort of a slice's elements driven by less(i, j) on current positions.
func (ex *Exec) sortCells(s SliceV, less func(i, j int) bool) {
	for i := 1; i < s.n; i++ {
		for j := i; j > 0 && less(j, j-1); j-- {
			a, b := s.b.cells[s.off+j], s.b.cells[s.off+j-1]
			va, vb := ex.load(a), ex.load(b)
			ex.store(a, vb, "sort")
			ex.store(b, va, "sort")
		}
	}
}

func inSortSlice(ex *Exec, _ *ssa.Function, a []Value, site ssa.Instruction) Value {
	ifc, ok := a[0].(Iface)
	if !ok {
		return nil
	}
	s, ok := ifc.v.(SliceV)
	if !ok {
		panic(&GoPanic{Kind: "unsupported", Msg: "sort.Slice on a non-slice"})
	}
	ex.sortCells(s, func(i, j int) bool {
		r := ex.normInt(ex.callValue(a[1], []Value{int64(i), int64(j)}, site))
		switch b := r.(type) {
		case bool:
			return b
		case *Term:
			return ex.branch(b, "sort less")
		}
		return false
	})
	return nil
}

func inErrorf(ex *Exec, _ *ssa.Function, args []Value, _ ssa.Instruction) Value {
	msg, _ := args[0].(string)
	// error text is not a subject of any property: keep the format string (no formatting cost on hot paths)
	return Iface{t: nil, v: &ErrObj{msg: msg}}
}

func inSprintf(ex *Exec, _ *ssa.Function, args []Value, _ ssa.Instruction) Value {
	msg, _ := args[0].(string)
	if len(args) > 1 {
		return fmt.Sprintf(msg, ex.hostArgs(args[1])...)
	}
	return msg
}

/* ---------------- math stubs ---------------- */

// axiomT registers a ground lemma keyed to a trigger term.  Lemmas are handed to the solver only
// with queries whose terms reach the trigger (relevance filtering keeps NRA contexts small).
func (ex *Exec) axiomT(trigger *Term, key string, fact *Term) {
	if ex.axDone[key] || fact == ex.b.True {
		return
	}
	ex.axDone[key] = true
	ex.axioms++
	ex.axByTrig[trigger.id] = append(ex.axByTrig[trigger.id], &axEntry{fact: fact, fpSafe: strings.HasPrefix(key, "log") || strings.HasPrefix(key, "flog")})
}

func (ex *Exec) axiomT2(t1, t2 *Term, key string, fact *Term) {
	if ex.axDone[key] || fact == ex.b.True {
		return
	}
	ex.axDone[key] = true
	ex.axioms++
	e := &axEntry{fact: fact}
	ex.axByTrig[t1.id] = append(ex.axByTrig[t1.id], e)
	ex.axByTrig[t2.id] = append(ex.axByTrig[t2.id], e)
}

// relevantAxioms returns the not-yet-permanent lemmas whose triggers occur in the cones of roots
// (transitively through the lemmas themselves), and whether the cone holds non-linear real terms.
func (ex *Exec) relevantAxioms(roots []*Term) (out []*axEntry, nonlinear bool) {
	seen := map[int]bool{}
	got := map[*axEntry]bool{}
	var stack []*Term
	stack = append(stack, roots...)
	for len(stack) > 0 {
		t := stack[len(stack)-1]
		stack = stack[:len(stack)-1]
		if seen[t.id] {
			continue
		}
		seen[t.id] = true
		switch t.op {
		case "rinv":
			if !t.args[0].isConst() {
				nonlinear = true
			}
		case "rmul":
			nv := 0
			for _, a := range t.args {
				if a.op != "rconst" {
					nv++
				}
			}
			if nv >= 2 {
				nonlinear = true
			}
		}
		if es, ok := ex.axByTrig[t.id]; ok {
			for _, e := range es {
				if !e.permanent && !got[e] {
					got[e] = true
					out = append(out, e)
					stack = append(stack, e.fact)
				}
			}
		}
		stack = append(stack, t.args...)
	}
	return
}

// check decides pc /\ extras together with the relevant ground lemmas.
func (ex *Exec) check(extras []*Term, want []*Term) (string, map[string]ModelVal) {
	if !ex.deadline.IsZero() && time.Now().After(ex.deadline) {
		return "unknown", nil // the run's time budget is spent: everything further is inconclusive
	}
	if ex.fpMode {
		// no real-arithmetic lemmas in the bit-precise mode; only the facts that are also true of the
		// rounded binary64 function (the sign and range facts of math.Log)
		all := append([]*Term(nil), extras...)
		axs, _ := ex.relevantAxioms(extras)
		for _, e := range axs {
			if e.fpSafe {
				all = append(all, e.fact)
			}
		}
		return ex.sol.Check(all, want, false)
	}
	ax, nl := ex.relevantAxioms(extras)
	if len(ax) == 0 {
		return ex.sol.Check(extras, want, nl)
	}
	all := make([]*Term, 0, len(extras)+len(ax))
	all = append(all, extras...)
	for _, e := range ax {
		all = append(all, e.fact)
	}
	return ex.sol.Check(all, want, nl)
}

func ratF(r *big.Rat) float64 { f, _ := r.Float64(); return f }

// native evaluates fn on a constant argument in concrete (translator validation) mode.
func (ex *Exec) native1(x F, f func(float64) float64) (F, bool) {
	if ex.concreteMode && x.T.op == "rconst" {
		v := f(ratF(x.T.rat))
		if math.IsNaN(v) || math.IsInf(v, 0) {
			return F{T: ex.b.Rat(ratZero), D: ex.b.False}, true
		}
		return F{T: ex.b.Float(v), D: x.D}, true
	}
	return F{}, false
}

func (ex *Exec) mExp(x F) F {
	if r, ok := ex.native1(x, math.Exp); ok {
		return r
	}
	if isRat(x.T, ratZero) {
		return F{T: ex.b.Rat(ratOne), D: x.D}
	}
	t := ex.b.UF("exp", x.T)
	ex.axiomT(t, "exp"+strconv.Itoa(x.T.id), ex.b.RLt(ex.b.Rat(ratZero), t))
	return F{T: t, D: x.D}
}

func (ex *Exec) mLog(x F) F {
	if r, ok := ex.native1(x, math.Log); ok {
		return r
	}
	tb := ex.b
	pos := tb.RLt(tb.Rat(ratZero), x.T)
	if isRat(x.T, ratOne) {
		return F{T: tb.Rat(ratZero), D: x.D}
	}
	t := tb.UF("log", x.T)
	one := tb.Rat(ratOne)
	zero := tb.Rat(ratZero)
	ex.axiomT(t, "log"+strconv.Itoa(x.T.id), tb.And(
		tb.Implies(tb.RLe(one, x.T), tb.RLe(zero, t)),
		tb.Implies(tb.And(pos, tb.RLe(x.T, one)), tb.RLe(t, zero)),
		tb.Implies(tb.RLt(one, x.T), tb.RLt(zero, t)),
		tb.Implies(tb.And(pos, tb.RLt(x.T, one)), tb.RLt(t, zero)),
	))
	if t.sort == SFloat {
		// bit-precise mode: range facts of the natural logarithm on binary64 (true of any implementation
		// that is accurate to a few ulps): finite on positive finite arguments, >= -30 on [1e-13, 1]
		ex.axiomT(t, "flog"+strconv.Itoa(x.T.id), tb.And(
			tb.Implies(tb.And(pos, tb.RLe(x.T, tb.FConst(math.MaxFloat64))), tb.And(tb.RLe(tb.FConst(-746), t), tb.RLe(t, tb.FConst(710)))),
			tb.Implies(tb.And(tb.RLe(tb.FConst(1e-13), x.T), tb.RLe(x.T, one)), tb.RLe(tb.FConst(-30), t)),
		))
	}
	d := x.D
	if pos != tb.True {
		d = ex.andD(d, pos)
	}
	return F{T: t, D: d}
}

func (ex *Exec) mTrig(which string, x F) F {
	tb := ex.b
	switch which {
	case "sin":
		if r, ok := ex.native1(x, math.Sin); ok {
			return r
		}
	case "cos":
		if r, ok := ex.native1(x, math.Cos); ok {
			return r
		}
	case "tan":
		if r, ok := ex.native1(x, math.Tan); ok {
			return r
		}
	}
	s := tb.UF("sin", x.T)
	c := tb.UF("cos", x.T)
	one := tb.Rat(ratOne)
	ex.axiomT2(s, c, "trig"+strconv.Itoa(x.T.id), tb.And(
		tb.Eq(tb.RAdd(tb.RMul(s, s), tb.RMul(c, c)), one),
	))
	switch which {
	case "sin":
		return F{T: s, D: x.D}
	case "cos":
		return F{T: c, D: x.D}
	}
	t := tb.UF("tan", x.T)
	nz := tb.Not(tb.Eq(c, tb.Rat(ratZero)))
	ex.axiomT(t, "tan"+strconv.Itoa(x.T.id), tb.Implies(nz, tb.Eq(tb.RMul(t, c), s)))
	return F{T: t, D: ex.andD(x.D, nz)}
}

func (ex *Exec) mHyp(which string, x F) F {
	tb := ex.b
	switch which {
	case "sinh":
		if r, ok := ex.native1(x, math.Sinh); ok {
			return r
		}
	case "cosh":
		if r, ok := ex.native1(x, math.Cosh); ok {
			return r
		}
	case "tanh":
		if r, ok := ex.native1(x, math.Tanh); ok {
			return r
		}
	}
	s := tb.UF("sinh", x.T)
	c := tb.UF("cosh", x.T)
	one := tb.Rat(ratOne)
	ex.axiomT2(s, c, "hyp"+strconv.Itoa(x.T.id), tb.And(
		tb.Eq(tb.RSub(tb.RMul(c, c), tb.RMul(s, s)), one),
		tb.RLe(one, c),
	))
	switch which {
	case "sinh":
		return F{T: s, D: x.D}
	case "cosh":
		return F{T: c, D: x.D}
	}
	t := tb.UF("tanh", x.T)
	ex.axiomT(t, "tanh"+strconv.Itoa(x.T.id), tb.Eq(tb.RMul(t, c), s))
	return F{T: t, D: x.D}
}

func (ex *Exec) mSqrt(x F) F {
	if r, ok := ex.native1(x, math.Sqrt); ok {
		return r
	}
	tb := ex.b
	if x.T.sort == SFloat {
		// bit-precise mode: IEEE-754 correctly rounded square root (what math.Sqrt is on every Go port)
		if x.T.op == "fconst" {
			return F{T: tb.FConst(math.Sqrt(x.T.f64())), D: x.D}
		}
		return F{T: tb.app("fsqrt", SFloat, x.T), D: x.D}
	}
	zero := tb.Rat(ratZero)
	if x.T.op == "rconst" && x.T.rat.Sign() >= 0 {
		// exact square roots of perfect-square rationals
		n, d := x.T.rat.Num(), x.T.rat.Denom()
		sn, sd := new(big.Int).Sqrt(n), new(big.Int).Sqrt(d)
		if new(big.Int).Mul(sn, sn).Cmp(n) == 0 && new(big.Int).Mul(sd, sd).Cmp(d) == 0 {
			return F{T: tb.Rat(new(big.Rat).SetFrac(sn, sd)), D: x.D}
		}
	}
	t := tb.UF("sqrt", x.T)
	nn := tb.RLe(zero, x.T)
	ex.axiomT(t, "sqrt"+strconv.Itoa(x.T.id), tb.And(
		tb.Implies(nn, tb.And(tb.RLe(zero, t), tb.Eq(tb.RMul(t, t), x.T))),
		tb.Implies(tb.RLt(zero, x.T), tb.RLt(zero, t))))
	d := x.D
	if nn != tb.True {
		d = ex.andD(d, nn)
	}
	return F{T: t, D: d}
}

func (ex *Exec) mPow(x, a F) F {
	tb := ex.b
	if ex.concreteMode && x.T.op == "rconst" && a.T.op == "rconst" {
		v := math.Pow(ratF(x.T.rat), ratF(a.T.rat))
		if math.IsNaN(v) || math.IsInf(v, 0) {
			return F{T: tb.Rat(ratZero), D: tb.False}
		}
		return F{T: tb.Float(v), D: ex.andD(x.D, a.D)}
	}
	d := ex.andD(x.D, a.D)
	if ex.fpMode && a.T.op == "fconst" {
		// bit-precise mode: math.Pow(x, 2) is the correctly rounded x*x (Go squares the mantissa once and
		// rescales by a power of two; exact outside the subnormal / overflow range), Pow(x,1)=x, Pow(x,0)=1
		switch a.T.f64() {
		case 2:
			return F{T: tb.RMul(x.T, x.T), D: d}
		case 1:
			return F{T: x.T, D: d}
		case 0:
			return F{T: tb.FConst(1), D: d}
		}
	}
	if a.T.op == "rconst" {
		if a.T.rat.IsInt() && a.T.rat.Num().IsInt64() {
			n := a.T.rat.Num().Int64()
			if n >= -4 && n <= 4 {
				if n == 0 {
					return F{T: tb.Rat(ratOne), D: d}
				}
				m := n
				if m < 0 {
					m = -m
				}
				p := x.T
				for k := int64(1); k < m; k++ {
					p = tb.RMul(p, x.T)
					if k%2 == 1 && p.op == "rmul" {
						ex.axiomT(p, "sq"+strconv.Itoa(p.id), tb.RLe(tb.Rat(ratZero), p))
					}
				}
				if n > 0 {
					return F{T: p, D: d}
				}
				nz := tb.Not(tb.Eq(x.T, tb.Rat(ratZero)))
				if nz != tb.True {
					d = ex.andD(d, nz)
				}
				return F{T: tb.RDiv(tb.Rat(ratOne), p), D: d}
			}
		}
		if a.T.rat.Cmp(big.NewRat(1, 2)) == 0 {
			return ex.mSqrt(x)
		}
	}
	t := tb.UF("pow", x.T, a.T)
	pos := tb.RLt(tb.Rat(ratZero), x.T)
	if pos != tb.True {
		d = ex.andD(d, pos)
	}
	ex.axiomT(t, "pow"+strconv.Itoa(t.id), tb.Implies(pos, tb.RLt(tb.Rat(ratZero), t)))
	return F{T: t, D: d}
}

func (ex *Exec) draw(kind string, p0, p1 F) F {
	tb := ex.b
	name := "draw_" + strconv.Itoa(len(ex.draws))
	v := tb.Var(name, SReal)
	if ex.concrete != nil {
		// concrete mode: mid-point / mean stands in (draws are not replayable natively)
		if kind == "uniform" {
			v = tb.RMul(tb.RatI(1, 2), tb.RAdd(p0.T, p1.T))
		} else {
			v = p0.T
		}
	} else {
		ex.nondets[name] = v
		if kind == "uniform" {
			ex.addPC(tb.And(tb.RLe(p0.T, v), tb.RLt(v, p1.T)))
		}
	}
	f := F{T: v}
	ex.draws = append(ex.draws, Draw{Kind: kind, P0: p0, P1: p1, V: f})
	return f
}

/* ---------------- harness runtime ---------------- */

func nameOf(ex *Exec, args []Value) string {
	name := args[0].(string)
	if len(args) > 1 {
		if s, ok := args[1].(SliceV); ok {
			for k := 0; k < s.n; k++ {
				name += "_" + strconv.FormatInt(ex.concInt(ex.load(s.b.cells[s.off+k]), "name index"), 10)
			}
		}
	}
	return name
}

func (ex *Exec) assume(c Value, what string) {
	c = ex.normInt(c)
	switch v := c.(type) {
	case bool:
		if !v {
			panic(abortPath{"assume false: " + what})
		}
	case *Term:
		if !ex.feasible(v) {
			panic(abortPath{"assume infeasible: " + what})
		}
		ex.addPC(v)
	}
}

func (ex *Exec) wantVars() []*Term {
	names := make([]string, 0, len(ex.nondets))
	for n := range ex.nondets {
		names = append(names, n)
	}
	sort.Strings(names)
	out := make([]*Term, len(names))
	for i, n := range names {
		out[i] = ex.nondets[n]
	}
	return out
}

// niceModel tries to re-solve with generic-position margins for better native reproducibility.
func (ex *Exec) niceModel(neg *Term, extra *Term) map[string]ModelVal {
	tb := ex.b
	cons := []*Term{neg}
	if extra != nil {
		cons = append(cons, extra)
	}
	lim := tb.RatI(4, 1)
	nlim := tb.RatI(-4, 1)
	for _, v := range ex.wantVars() {
		if v.sort == SReal && !strings.HasPrefix(v.name, "draw_") {
			cons = append(cons, tb.RLe(nlim, v), tb.RLe(v, lim))
		}
	}
	r, m := ex.check(cons, ex.wantVars())
	if r == "sat" {
		return m
	}
	return nil
}

func (ex *Exec) obligation(kind, label string, ob *Term, margin *Term, site ssa.Instruction) {
	tb := ex.b
	ex.res.Obligations++
	pos := ""
	if site != nil {
		pos = ex.pos2s(site.Pos())
	}
	if ob == tb.True {
		ex.res.Discharged++
		ex.res.Syntactic++
		return
	}
	neg := tb.Not(ob)
	if ob == tb.False {
		// concrete failure: any model of the PC is a counterexample
		r, m := ex.check(nil, ex.wantVars())
		if r == "unsat" {
			panic(abortPath{"infeasible at failed assertion"})
		}
		ex.violate(Violation{Kind: kind, Label: label, Pos: pos, Detail: "fails on every input of this path", Solver: r}, m)
		return
	}
	tq := time.Now()
	r, m := ex.check([]*Term{neg}, ex.wantVars())
	slow := time.Since(tq) > 1500*time.Millisecond
	if ex.res.SampleQuery == "" && r == "unsat" {
		ex.res.SampleQuery = label + ": " + neg.Short()
	}
	// cross-solver diffing: a deterministic sample of decided obligations is re-decided by z3 5.1.0
	ex.xcount++
	if ex.xsample > 0 && ex.xcount%ex.xsample == 0 && (r == "unsat" || r == "sat") {
		q := []*Term{neg}
		axs, _ := ex.relevantAxioms(q)
		for _, e := range axs {
			q = append(q, e.fact)
		}
		other := CrossCheck("z3-new", []string{"-T:20"}, ex.sol.script(q, nil), 25)
		ex.xchecked++
		if (other == "sat" || other == "unsat") && other != r {
			ex.xdisagree = append(ex.xdisagree, label+" @ "+pos+": z3 4.8.12="+r+" z3 5.1.0="+other)
		}
	}
	switch r {
	case "unsat":
		ex.res.Discharged++
	case "sat":
		if !slow { // a margin model is a convenience for replay; not worth a second hard query
			if nm := ex.niceModel(neg, margin); nm != nil {
				m = nm
			}
		}
		q := ex.sol.script([]*Term{neg}, nil)
		ex.violate(Violation{Kind: kind, Label: label, Pos: pos, Detail: "negated obligation: " + neg.Short(), Solver: "z3", Query: q}, m)
		// continue the path under the assertion
		if ex.feasible(ob) {
			ex.addPC(ob)
		} else {
			panic(abortPath{"assertion fails everywhere on path"})
		}
	default:
		// The solver gave up on the full query.  Under-approximate it: fix all but two of the real
		// inputs to small distinct rationals and ask again - a model of the restricted query is a model
		// of the original one (a sound counterexample, replayed natively like any other); no model
		// leaves the obligation undecided as before.
		if rm := ex.restrictedModel(neg); rm != nil {
			q := ex.sol.script([]*Term{neg}, nil)
			ex.violate(Violation{Kind: kind, Label: label, Pos: pos, Detail: "negated obligation (model found with all but two inputs fixed): " + neg.Short(), Solver: "z3", Query: q}, rm)
			if ex.feasible(ob) {
				ex.addPC(ob)
			} else {
				panic(abortPath{"assertion fails everywhere on path"})
			}
			return
		}
		ex.res.Undischarged = append(ex.res.Undischarged, label+" @ "+pos+": solver "+r)
		if len(ex.res.Undischarged) >= 4 {
			panic(abortPath{"too many undecided obligations on this path"})
		}
	}
}

// restrictedModel: see the unknown branch of obligation.
func (ex *Exec) restrictedModel(neg *Term) map[string]ModelVal {
	tb := ex.b
	vars := ex.wantVars()
	var reals []*Term
	for _, v := range vars {
		if v.sort == SReal && !strings.HasPrefix(v.name, "draw_") {
			reals = append(reals, v)
		}
	}
	if len(reals) < 4 || ex.fpMode {
		return nil
	}
	sort.Slice(reals, func(i, j int) bool { return reals[i].name < reals[j].name })
	for attempt := 0; attempt < 2; attempt++ {
		cons := []*Term{neg}
		free := 0
		for j, v := range reals {
			if free < 2 && (j+attempt)%((len(reals)+1)/2) == 0 {
				free++
				continue
			}
			cons = append(cons, tb.Eq(v, tb.RatI(int64((j*7+attempt*3)%11-5), 2)))
		}
		if r, m := ex.check(cons, vars); r == "sat" {
			return m
		}
	}
	return nil
}

func tensorStruct(ex *Exec, v Value) (*StructObj, *types.Struct) {
	ifc, ok := v.(Iface)
	if !ok {
		panic(&GoPanic{Kind: "nil", Msg: "vrt: nil tensor"})
	}
	p, ok := ifc.v.(*Cell)
	if !ok || p == nil {
		panic(&GoPanic{Kind: "nil", Msg: "vrt: tensor is not a pointer"})
	}
	st := ifc.t.(*types.Pointer).Elem().Underlying().(*types.Struct)
	return p.v.(*StructObj), st
}

func fieldIdx(st *types.Struct, name string) int {
	for i := 0; i < st.NumFields(); i++ {
		if st.Field(i).Name() == name {
			return i
		}
	}
	// the anchored state of a property was renamed or restructured: this harness cannot observe it
	panic(&GoPanic{Kind: "unsupported", Msg: "the harness observes the struct field \"" + name + "\", which this tree does not have"})
}

// findField locates a field by name in a struct object, descending into embedded structs (by value or
// by pointer).  Returns the cell, or nil.
func (ex *Exec) findField(so *StructObj, st *types.Struct, name string, depth int) *Cell {
	if depth > 4 {
		return nil
	}
	for i := 0; i < st.NumFields(); i++ {
		if st.Field(i).Name() == name {
			return so.f[i]
		}
	}
	for i := 0; i < st.NumFields(); i++ {
		f := st.Field(i)
		if !f.Embedded() {
			continue
		}
		switch ft := f.Type().Underlying().(type) {
		case *types.Struct:
			if inner, ok := so.f[i].v.(*StructObj); ok {
				if c := ex.findField(inner, ft, name, depth+1); c != nil {
					return c
				}
			}
		case *types.Pointer:
			if est, ok := ft.Elem().Underlying().(*types.Struct); ok {
				if pc, ok := so.f[i].v.(*Cell); ok && pc != nil {
					if inner, ok := pc.v.(*StructObj); ok {
						if c := ex.findField(inner, est, name, depth+1); c != nil {
							return c
						}
					}
				}
			}
		}
	}
	return nil
}

func (ex *Exec) namedField(obj Value, name string) *Cell {
	ifc, ok := obj.(Iface)
	if !ok {
		panic(&GoPanic{Kind: "nil", Msg: "vrt field access on nil"})
	}
	p, ok := ifc.v.(*Cell)
	pt, ok2 := ifc.t.Underlying().(*types.Pointer)
	if !ok || !ok2 || p == nil {
		panic(&GoPanic{Kind: "unsupported", Msg: "vrt field access needs a pointer to a struct"})
	}
	st, ok := pt.Elem().Underlying().(*types.Struct)
	so, ok3 := p.v.(*StructObj)
	if !ok || !ok3 {
		panic(&GoPanic{Kind: "unsupported", Msg: "vrt field access needs a pointer to a struct"})
	}
	c := ex.findField(so, st, name, 0)
	if c == nil {
		panic(&GoPanic{Kind: "unsupported", Msg: "the harness observes the struct field \"" + name + "\", which this tree does not have"})
	}
	return c
}

func (ex *Exec) flatten(v Value, out *[]Value) {
	ifc, ok := v.(Iface)
	if !ok {
		panic(&GoPanic{Kind: "nil", Msg: "vrt.Flat: nil element in tensor data"})
	}
	switch d := ifc.v.(type) {
	case F:
		*out = append(*out, d)
	case SliceV:
		for k := 0; k < d.n; k++ {
			ex.flatten(ex.load(d.b.cells[d.off+k]), out)
		}
	default:
		panic(&GoPanic{Kind: "typeassert", Msg: fmt.Sprintf("vrt.Flat: unexpected data %T", ifc.v)})
	}
}

func (ex *Exec) sliceOf(elem types.Type, vals []Value) SliceV {
	s := ex.makeSlice(elem, len(vals), len(vals))
	for k, v := range vals {
		s.b.cells[k].v = v
	}
	return s
}

func gctxOf(ex *Exec, t Value) (*StructObj, *types.Struct) {
	so, st := tensorStruct(ex, t)
	gp := so.f[fieldIdx(st, "gctx")].v.(*Cell)
	if gp == nil {
		panic(&GoPanic{Kind: "nil", Msg: "vrt: nil grad context"})
	}
	gt := st.Field(fieldIdx(st, "gctx")).Type().(*types.Pointer).Elem().Underlying().(*types.Struct)
	return gp.v.(*StructObj), gt
}

func inAssertEqF(ex *Exec, _ *ssa.Function, a []Value, site ssa.Instruction) Value {
	tb := ex.b
	got, want := a[1].(F), a[2].(F)
	// wherever the reference is defined the implementation must be defined and equal
	ob := tb.Implies(ex.defTerm(want), tb.And(ex.defTerm(got), tb.Eq(got.T, want.T)))
	// margin: clearly different values or an undefined result
	diff := tb.RSub(got.T, want.T)
	h := tb.RatI(1, 100)
	margin := tb.Or(tb.Not(ex.defTerm(got)), tb.RLe(h, diff), tb.RLe(diff, tb.RNeg(h)))
	ex.obligation("eq", a[0].(string), ob, margin, site)
	return nil
}

var vrtIntrinsics = map[string]intrinsicFn{
	"Param": func(ex *Exec, _ *ssa.Function, a []Value, _ ssa.Instruction) Value {
		v, ok := ex.params[a[0].(string)]
		if !ok {
			panic(&GoPanic{Kind: "unsupported", Msg: "missing param " + a[0].(string)})
		}
		return v
	},
	"ParamOr": func(ex *Exec, _ *ssa.Function, a []Value, _ ssa.Instruction) Value {
		if v, ok := ex.params[a[0].(string)]; ok {
			return v
		}
		return a[1]
	},
	"SParam": func(ex *Exec, _ *ssa.Function, a []Value, _ ssa.Instruction) Value {
		return ex.sparams[a[0].(string)]
	},
	"Known": func(ex *Exec, _ *ssa.Function, a []Value, _ ssa.Instruction) Value {
		return ex.known[a[0].(string)]
	},
	"Int": func(ex *Exec, _ *ssa.Function, a []Value, _ ssa.Instruction) Value {
		name := a[0].(string)
		lo, hi := ex.concInt(a[1], "lo"), ex.concInt(a[2], "hi")
		if o, ok := ex.rangesAll[stripIdx(name)]; ok {
			if o[0] < lo {
				lo2 := o[0]
				_ = lo2
			}
			nl, nh := lo, hi
			if o[0] < nl {
				nl = o[0]
			}
			if o[1] > nh {
				nh = o[1]
			}
			ex.rangesAll[stripIdx(name)] = [2]int64{nl, nh}
		} else {
			ex.rangesAll[stripIdx(name)] = [2]int64{lo, hi}
		}
		if ex.concrete != nil {
			if r, ok := ex.concrete[name]; ok {
				return r.Num().Int64()
			}
			return lo
		}
		if lo == hi {
			return lo
		}
		v := ex.b.Var(name, SInt)
		if _, seen := ex.nondets[name]; !seen {
			ex.nondets[name] = v
			ex.addPC(ex.b.And(ex.b.ILe(ex.b.Int(lo), v), ex.b.ILe(v, ex.b.Int(hi))))
		}
		return ex.normInt(v)
	},
	"AnyInt": func(ex *Exec, _ *ssa.Function, a []Value, _ ssa.Instruction) Value {
		name := a[0].(string)
		if ex.concrete != nil {
			if r, ok := ex.concrete[name]; ok {
				return r.Num().Int64()
			}
			return int64(0)
		}
		v := ex.b.Var(name, SInt)
		ex.nondets[name] = v
		return ex.normInt(v)
	},
	"Bool": func(ex *Exec, _ *ssa.Function, a []Value, _ ssa.Instruction) Value {
		name := a[0].(string)
		if ex.concrete != nil {
			return ex.concBool[name]
		}
		v := ex.b.Var(name, SBool)
		ex.nondets[name] = v
		return v
	},
	"Float": func(ex *Exec, _ *ssa.Function, a []Value, _ ssa.Instruction) Value {
		name := nameOf(ex, a)
		if ex.concrete != nil {
			if r, ok := ex.concrete[name]; ok {
				return F{T: ex.b.Rat(r)}
			}
			return F{T: ex.b.Rat(ex.seedGen(name))}
		}
		v := ex.b.Var(name, SReal)
		ex.nondets[name] = v
		return F{T: v}
	},
	"FloatN": func(ex *Exec, _ *ssa.Function, a []Value, _ ssa.Instruction) Value {
		// a float64 that may also be NaN: value variable plus a symbolic definedness flag
		name := nameOf(ex, a)
		if ex.concrete != nil {
			if ex.concBool != nil {
				if d, ok := ex.concBool[name+"#def"]; ok && !d {
					return F{T: ex.b.Rat(ratZero), D: ex.b.False}
				}
			}
			if r, ok := ex.concrete[name]; ok {
				return F{T: ex.b.Rat(r)}
			}
			return F{T: ex.b.Rat(ex.seedGen(name))}
		}
		v := ex.b.Var(name, SReal)
		d := ex.b.Var(name+"#def", SBool)
		ex.nondets[name] = v
		ex.nondets[name+"#def"] = d
		return F{T: v, D: d}
	},
	"IsNaN": func(ex *Exec, _ *ssa.Function, a []Value, _ ssa.Instruction) Value {
		return ex.normInt(ex.b.Not(ex.defTerm(a[0].(F))))
	},
	"Assume": func(ex *Exec, _ *ssa.Function, a []Value, site ssa.Instruction) Value {
		ex.assume(a[0], ex.pos2s(site.Pos()))
		return nil
	},
	"Assert": func(ex *Exec, _ *ssa.Function, a []Value, site ssa.Instruction) Value {
		c := ex.normInt(a[1])
		ex.obligation("assert", a[0].(string), ex.anyTerm(c), nil, site)
		return nil
	},
	"Lemma": func(ex *Exec, _ *ssa.Function, a []Value, site ssa.Instruction) Value {
		// cut rule: prove the fact on this path, then use it (sound: it is discharged first)
		c := ex.anyTerm(ex.normInt(a[1]))
		before := len(ex.res.Violations) + len(ex.res.Undischarged)
		ex.obligation("assert", a[0].(string), c, nil, site)
		if len(ex.res.Violations)+len(ex.res.Undischarged) == before && c != ex.b.True {
			ex.addPC(c)
		}
		return nil
	},
	"LemmaEqF": func(ex *Exec, _ *ssa.Function, a []Value, site ssa.Instruction) Value {
		// prove got == want on this path, then print got as want in every later query (rewrite by a proven equality)
		tb := ex.b
		got, want := a[1].(F), a[2].(F)
		ob := tb.Implies(ex.defTerm(want), tb.And(ex.defTerm(got), tb.Eq(got.T, want.T)))
		before := len(ex.res.Violations) + len(ex.res.Undischarged)
		diff := tb.RSub(got.T, want.T)
		h := tb.RatI(1, 100)
		margin := tb.Or(tb.Not(ex.defTerm(got)), tb.RLe(h, diff), tb.RLe(diff, tb.RNeg(h)))
		ex.obligation("eq", a[0].(string), ob, margin, site)
		if len(ex.res.Violations)+len(ex.res.Undischarged) == before && (want.D == nil || want.D == tb.True) {
			g, w := ex.sol.resolve(got.T), ex.sol.resolve(want.T)
			if g != w && !g.isConst() && g.op != "var" && !occurs(g, w, 20000) {
				ex.sol.alias[g.id] = w
			}
		}
		return nil
	},
	"AssertEqFS": inAssertEqF, // the scale argument only matters to the native tolerance
	"AssertEqF":  inAssertEqF,
	"AssertFinite": func(ex *Exec, _ *ssa.Function, a []Value, site ssa.Instruction) Value {
		x := a[1].(F)
		ex.obligation("finite", a[0].(string), ex.defTerm(x), nil, site)
		return nil
	},
	"Reach": func(ex *Exec, _ *ssa.Function, a []Value, _ ssa.Instruction) Value {
		ex.res.Reached = append(ex.res.Reached, a[0].(string))
		return nil
	},
	"Note": func(ex *Exec, _ *ssa.Function, a []Value, _ ssa.Instruction) Value {
		if len(ex.res.Notes) < 32 {
			ex.res.Notes = append(ex.res.Notes, a[0].(string))
		}
		return nil
	},
	"Try": func(ex *Exec, _ *ssa.Function, a []Value, site ssa.Instruction) (ret Value) {
		depth := ex.depth
		nfp := len(ex.fps)
		defer func() {
			if r := recover(); r != nil {
				if p, ok := r.(*GoPanic); ok && p.Kind != "budget" && p.Kind != "unsupported" {
					ex.depth = depth
					ex.fps = ex.fps[:nfp]
					if len(ex.res.Notes) < 32 {
						ex.res.Notes = append(ex.res.Notes, "caught panic: "+p.Error())
					}
					ex.res.Observed["last_panic"] = p.Error()
					ret = true
					return
				}
				panic(r)
			}
		}()
		ex.callValue(a[0], nil, site)
		return false
	},
	"Observe": func(ex *Exec, _ *ssa.Function, a []Value, _ ssa.Instruction) Value {
		name := nameOf(ex, []Value{a[0], a[2]})
		x := a[1].(F)
		if x.T.op == "rconst" {
			d := "1"
			if x.D != nil && x.D != ex.b.True {
				d = "0"
			}
			ex.res.Observed[name] = x.T.rat.RatString() + "|" + d
		} else {
			ex.res.Observed[name] = "sym"
		}
		return nil
	},
	"Flat": func(ex *Exec, _ *ssa.Function, a []Value, _ ssa.Instruction) Value {
		so, st := tensorStruct(ex, a[0])
		var out []Value
		ex.flatten(ex.load(so.f[fieldIdx(st, "data")]), &out)
		return ex.sliceOf(types.Typ[types.Float64], out)
	},
	"Dims": func(ex *Exec, _ *ssa.Function, a []Value, _ ssa.Instruction) Value {
		so, st := tensorStruct(ex, a[0])
		d := so.f[fieldIdx(st, "dims")].v.(SliceV)
		var out []Value
		for k := 0; k < d.n; k++ {
			out = append(out, ex.load(d.b.cells[d.off+k]))
		}
		return ex.sliceOf(types.Typ[types.Int], out)
	},
	"IntField": func(ex *Exec, _ *ssa.Function, a []Value, _ ssa.Instruction) Value {
		return ex.load(ex.namedField(a[0], a[1].(string)))
	},
	"SetIntField": func(ex *Exec, _ *ssa.Function, a []Value, _ ssa.Instruction) Value {
		ex.store(ex.namedField(a[0], a[1].(string)), a[2], "vrt.SetIntField")
		return nil
	},
	"Tracked": func(ex *Exec, _ *ssa.Function, a []Value, _ ssa.Instruction) Value {
		g, gt := gctxOf(ex, a[0])
		return g.f[fieldIdx(gt, "tracked")].v
	},
	"Dirty": func(ex *Exec, _ *ssa.Function, a []Value, _ ssa.Instruction) Value {
		g, gt := gctxOf(ex, a[0])
		return g.f[fieldIdx(gt, "bpdirty")].v
	},
	"NumEdges": func(ex *Exec, _ *ssa.Function, a []Value, _ ssa.Instruction) Value {
		g, gt := gctxOf(ex, a[0])
		return int64(g.f[fieldIdx(gt, "backEdges")].v.(SliceV).n)
	},
	"FootprintBegin": func(ex *Exec, _ *ssa.Function, a []Value, _ ssa.Instruction) Value {
		ex.epoch++
		ex.fps = append(ex.fps, &footprint{start: ex.epoch})
		return nil
	},
	"FootprintEnd": func(ex *Exec, _ *ssa.Function, a []Value, _ ssa.Instruction) Value {
		spec := a[0].(string)
		var allow, only []string
		if strings.Contains(spec, "=") {
			for _, part := range strings.Split(spec, ";") {
				k, v, _ := strings.Cut(part, "=")
				if k == "allow" {
					allow = strings.Split(v, ",")
				} else if k == "only" {
					only = strings.Split(v, ",")
				}
			}
		} else {
			allow = strings.Split(spec, ",")
		}
		fp := ex.fps[len(ex.fps)-1]
		ex.fps = ex.fps[:len(ex.fps)-1]
		n := int64(0)
		for _, w := range fp.writes {
			if strings.Contains(w, "@zzh") || strings.Contains(w, "@zzvrt") || strings.Contains(w, "/zz_") || strings.HasSuffix(w, "@append") || strings.HasSuffix(w, "@clone") {
				continue // the harness's own stores
			}
			ok := false
			for _, al := range allow {
				if al != "" && strings.HasPrefix(w, al+"@") {
					ok = true
				}
			}
			if len(only) > 0 && !ok {
				// only writes to the listed kinds of location count (e.g. a tensor's data / dims / context)
				ok = true
				for _, on := range only {
					if on != "" && strings.HasPrefix(w, on+"@") {
						ok = false
					}
				}
			}
			if !ok {
				n++
				if len(ex.res.Notes) < 32 {
					ex.res.Notes = append(ex.res.Notes, "write to pre-existing object: "+w)
				}
			}
		}
		return n
	},
	"ClosureCallsReset": func(ex *Exec, _ *ssa.Function, a []Value, _ ssa.Instruction) Value {
		for _, c := range ex.allClosures {
			c.calls = 0
		}
		return nil
	},
	"ClosureCallsMax": func(ex *Exec, _ *ssa.Function, a []Value, _ ssa.Instruction) Value {
		sub := a[0].(string)
		mx := 0
		for _, c := range ex.allClosures {
			sig := c.fn.Signature
			if sig.Params().Len() != 0 || sig.Results().Len() != 2 {
				continue // only backward-rule closures: func() (Tensor, error)
			}
			if c.fn.Pkg != nil && strings.Contains(c.fn.Pkg.Pkg.Path(), sub) && c.calls > mx {
				mx = c.calls
			}
		}
		return int64(mx)
	},
	"DrawCount": func(ex *Exec, _ *ssa.Function, a []Value, _ ssa.Instruction) Value {
		return int64(len(ex.draws))
	},
	"DrawKind": func(ex *Exec, _ *ssa.Function, a []Value, _ ssa.Instruction) Value {
		i := ex.concInt(a[0], "draw index")
		if ex.draws[i].Kind == "uniform" {
			return int64(1)
		}
		return int64(2)
	},
	"DrawParam": func(ex *Exec, _ *ssa.Function, a []Value, _ ssa.Instruction) Value {
		i := ex.concInt(a[0], "draw index")
		if ex.concInt(a[1], "which") == 0 {
			return ex.draws[i].P0
		}
		return ex.draws[i].P1
	},
	"DrawValue": func(ex *Exec, _ *ssa.Function, a []Value, _ ssa.Instruction) Value {
		i := ex.concInt(a[0], "draw index")
		return ex.draws[i].V
	},
	"And": func(ex *Exec, _ *ssa.Function, a []Value, _ ssa.Instruction) Value {
		return ex.normInt(ex.b.And(ex.anyTerm(ex.normInt(a[0])), ex.anyTerm(ex.normInt(a[1]))))
	},
	"Or": func(ex *Exec, _ *ssa.Function, a []Value, _ ssa.Instruction) Value {
		return ex.normInt(ex.b.Or(ex.anyTerm(ex.normInt(a[0])), ex.anyTerm(ex.normInt(a[1]))))
	},
	"IteF": func(ex *Exec, _ *ssa.Function, a []Value, _ ssa.Instruction) Value {
		return ex.iteValue(a[0], a[1], a[2])
	},
	"CloseF": func(ex *Exec, _ *ssa.Function, a []Value, _ ssa.Instruction) Value {
		x, y := a[0].(F), a[1].(F)
		return ex.normInt(ex.b.And(ex.defTerm(x), ex.defTerm(y), ex.b.Eq(x.T, y.T)))
	},
	"IteI": func(ex *Exec, _ *ssa.Function, a []Value, _ ssa.Instruction) Value {
		return ex.iteValue(a[0], ex.normInt(a[1]), ex.normInt(a[2]))
	},
	"Nm": func(ex *Exec, _ *ssa.Function, a []Value, _ ssa.Instruction) Value {
		return nameOf(ex, a)
	},
	"TimedOK": func(ex *Exec, _ *ssa.Function, a []Value, _ ssa.Instruction) Value {
		return true
	},
	"Concurrently": func(ex *Exec, _ *ssa.Function, a []Value, _ ssa.Instruction) Value {
		return nil
	},
	"Reseeds": func(ex *Exec, _ *ssa.Function, a []Value, _ ssa.Instruction) Value {
		return int64(ex.reseeds)
	},
	"Steps": func(ex *Exec, _ *ssa.Function, a []Value, _ ssa.Instruction) Value {
		return ex.steps
	},
	"Concretize": func(ex *Exec, _ *ssa.Function, a []Value, _ ssa.Instruction) Value {
		return ex.concInt(a[0], "Concretize")
	},
	"Symbolic": func(ex *Exec, _ *ssa.Function, a []Value, _ ssa.Instruction) Value {
		return ex.concrete == nil
	},
	"SameTerm": func(ex *Exec, _ *ssa.Function, a []Value, _ ssa.Instruction) Value {
		x, y := a[0].(F), a[1].(F)
		return x.T == y.T
	},
	"Abstract": func(ex *Exec, _ *ssa.Function, a []Value, _ ssa.Instruction) Value {
		// replace every element of the tensor by a fresh variable (inductive generalisation)
		prefix := a[1].(string)
		so, st := tensorStruct(ex, a[0])
		n := 0
		var walk func(c *Cell)
		walk = func(c *Cell) {
			ifc := c.v.(Iface)
			switch d := ifc.v.(type) {
			case F:
				name := prefix + "_" + strconv.Itoa(n)
				n++
				var nv F
				if ex.concrete != nil {
					if r, ok := ex.concrete[name]; ok {
						nv = F{T: ex.b.Rat(r)}
					} else {
						nv = F{T: ex.b.Rat(ex.seedGen(name))}
					}
				} else {
					v := ex.b.Var(name, SReal)
					ex.nondets[name] = v
					nv = F{T: v}
				}
				c.v = Iface{t: ifc.t, v: nv}
			case SliceV:
				for k := 0; k < d.n; k++ {
					walk(d.b.cells[d.off+k])
				}
			}
		}
		walk(so.f[fieldIdx(st, "data")])
		return nil
	},
}

// occurs reports whether needle is in the cone of t (true also when the budget runs out).
func occurs(needle, t *Term, budget int) bool {
	seen := map[int]bool{}
	stack := []*Term{t}
	for len(stack) > 0 {
		x := stack[len(stack)-1]
		stack = stack[:len(stack)-1]
		if x == needle {
			return true
		}
		if seen[x.id] {
			continue
		}
		seen[x.id] = true
		budget--
		if budget <= 0 {
			return true
		}
		stack = append(stack, x.args...)
	}
	return false
}

func timeType(ex *Exec) types.Type {
	for _, p := range ex.prog.AllPackages() {
		if p.Pkg.Path() == "time" {
			if t := p.Type("Time"); t != nil {
				return t.Type()
			}
		}
	}
	panic(&GoPanic{Kind: "unsupported", Msg: "time.Time not loaded"})
}

func stripIdx(name string) string {
	for len(name) > 0 {
		k := strings.LastIndexByte(name, '_')
		if k < 0 {
			break
		}
		if _, err := strconv.Atoi(name[k+1:]); err != nil {
			break
		}
		name = name[:k]
	}
	return name
}
