package main

import (
	"fmt"
	"os/exec"
)

// selfTest verifies that the tool chain the checks depend on is present (run by setup_cmd).
func selfTest() int {
	for _, bin := range []string{"z3", "z3-new", "go"} {
		if _, err := exec.LookPath(bin); err != nil {
			fmt.Println("selftest: missing", bin)
			return 1
		}
	}
	s := NewSolver("z3", 5000)
	defer s.Close()
	b := NewTB()
	x := b.Var("x", SReal)
	s.Reset(false)
	r, _ := s.Check([]*Term{b.RLt(b.RMul(x, x), b.Rat(ratZero))}, nil, true)
	if r != "unsat" {
		fmt.Println("selftest: solver gave", r, "for x*x<0")
		return 1
	}
	r, m := s.Check([]*Term{b.Eq(b.RMul(x, b.RatI(3, 1)), b.RatI(1, 1))}, []*Term{x}, false)
	if r != "sat" || m["x"].Rat == nil || m["x"].Rat.RatString() != "1/3" {
		fmt.Println("selftest: model parsing failed", r, m)
		return 1
	}
	// bit-precise mode: (k/49)*49 < k has the model k = 1 among others; (k/4)*4 < k has none
	if _, err := exec.LookPath("cvc5"); err != nil {
		fmt.Println("selftest: cvc5 missing (bit-precise queries fall back to z3)")
	}
	fb := NewTB()
	fb.fp = true
	s.Reset(true, true)
	k := fb.Var("k", SInt)
	rng := fb.And(fb.ILe(fb.Int(0), k), fb.ILe(k, fb.Int(49)))
	back := func(n int64) *Term {
		fk, fn := fb.ToReal(k), fb.ToReal(fb.Int(n))
		return fb.RLt(fb.RMul(fb.RDiv(fk, fn), fn), fk)
	}
	if r, _ := s.Check([]*Term{rng, back(49)}, []*Term{k}, false); r != "sat" {
		fmt.Println("selftest: bit-precise query (k/49)*49 < k gave", r)
		return 1
	}
	if r, _ := s.Check([]*Term{rng, back(4)}, nil, false); r != "unsat" {
		fmt.Println("selftest: bit-precise query (k/4)*4 < k gave", r)
		return 1
	}
	fmt.Println("selftest ok")
	return 0
}
