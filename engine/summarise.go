package main

// Pure scalar function summarisation: a function whose parameters/results are
// scalars, whose CFG is acyclic and whose body has no side effects is evaluated
// once with block predicates; phi nodes and multiple returns become ite terms.

import (
	"go/token"
	"go/types"

	"golang.org/x/tools/go/ssa"
)

type HostObj struct {
	name   string
	invoke func(ex *Exec, method string, args []Value) Value
}

type HostFunc struct {
	fn func(ex *Exec, args []Value) Value
}

func isScalarT(t types.Type) bool {
	return isFloatT(t) || isIntT(t) || isBoolT(t)
}

func (ex *Exec) summarisable(fn *ssa.Function) bool {
	if v, ok := ex.sumOK[fn]; ok {
		return v == 1
	}
	ok := ex.checkSummarisable(fn)
	if ok {
		ex.sumOK[fn] = 1
	} else {
		ex.sumOK[fn] = 2
	}
	return ok
}

func (ex *Exec) checkSummarisable(fn *ssa.Function) bool {
	if fn.Blocks == nil || len(fn.Blocks) < 2 {
		return false // straight-line code needs no merging
	}
	for _, p := range fn.Params {
		if !isScalarT(p.Type()) {
			return false
		}
	}
	res := fn.Signature.Results()
	if res.Len() != 1 || !isScalarT(res.At(0).Type()) {
		return false
	}
	for _, fv := range fn.FreeVars {
		pt, ok := fv.Type().(*types.Pointer)
		if !ok || !isScalarT(pt.Elem()) {
			return false
		}
	}
	// acyclic?
	state := map[*ssa.BasicBlock]int{}
	var dfs func(b *ssa.BasicBlock) bool
	dfs = func(b *ssa.BasicBlock) bool {
		state[b] = 1
		for _, s := range b.Succs {
			if state[s] == 1 {
				return false
			}
			if state[s] == 0 && !dfs(s) {
				return false
			}
		}
		state[b] = 2
		return true
	}
	if !dfs(fn.Blocks[0]) {
		return false
	}
	for _, b := range fn.Blocks {
		for _, ins := range b.Instrs {
			switch i := ins.(type) {
			case *ssa.BinOp, *ssa.Phi, *ssa.If, *ssa.Jump, *ssa.Return, *ssa.Convert, *ssa.DebugRef:
				if bo, ok := i.(*ssa.BinOp); ok {
					if (bo.Op == token.QUO || bo.Op == token.REM) && isIntT(bo.X.Type()) {
						return false
					}
				}
			case *ssa.UnOp:
				if i.Op == token.MUL {
					if _, ok := i.X.(*ssa.FreeVar); !ok {
						return false
					}
				}
			case *ssa.Call:
				callee, ok := i.Call.Value.(*ssa.Function)
				if !ok || i.Call.IsInvoke() {
					return false
				}
				if _, isIn := pureIntrinsics[fnKey(callee)]; !isIn {
					return false
				}
			default:
				return false
			}
		}
	}
	return true
}

func (ex *Exec) summarise(fn *ssa.Function, args []Value, fv []Value) Value {
	tb := ex.b
	fr := &frame{fn: fn, env: map[ssa.Value]Value{}, fv: fv}
	for i, p := range fn.Params {
		fr.env[p] = args[i]
	}
	// reverse postorder
	var order []*ssa.BasicBlock
	seen := map[*ssa.BasicBlock]bool{}
	var dfs func(b *ssa.BasicBlock)
	dfs = func(b *ssa.BasicBlock) {
		seen[b] = true
		for _, s := range b.Succs {
			if !seen[s] {
				dfs(s)
			}
		}
		order = append(order, b)
	}
	dfs(fn.Blocks[0])
	for i, j := 0, len(order)-1; i < j; i, j = i+1, j-1 {
		order[i], order[j] = order[j], order[i]
	}
	type edge struct{ from, to *ssa.BasicBlock }
	edgeP := map[edge]*Term{}
	type ret struct {
		p *Term
		v Value
	}
	var rets []ret
	for _, b := range order {
		var p *Term
		if b == fn.Blocks[0] {
			p = tb.True
		} else {
			var ps []*Term
			for _, pr := range b.Preds {
				if e, ok := edgeP[edge{pr, b}]; ok {
					ps = append(ps, e)
				}
			}
			p = tb.Or(ps...)
		}
		if p == tb.False {
			continue
		}
		for _, ins := range b.Instrs {
			ex.tick(ins.Pos())
			switch i := ins.(type) {
			case *ssa.Phi:
				var acc Value
				for k := len(b.Preds) - 1; k >= 0; k-- {
					e, ok := edgeP[edge{b.Preds[k], b}]
					if !ok || e == tb.False {
						continue
					}
					v := ex.get(fr, i.Edges[k])
					if acc == nil {
						acc = v
					} else {
						acc = ex.iteValue(e, v, acc)
					}
				}
				fr.env[i] = acc
			case *ssa.If:
				c := ex.anyTerm(ex.normInt(ex.get(fr, i.Cond)))
				edgeP[edge{b, b.Succs[0]}] = tb.And(p, c)
				edgeP[edge{b, b.Succs[1]}] = tb.And(p, tb.Not(c))
			case *ssa.Jump:
				edgeP[edge{b, b.Succs[0]}] = p
			case *ssa.Return:
				rets = append(rets, ret{p, ex.get(fr, i.Results[0])})
			default:
				ex.exec(fr, ins)
			}
		}
	}
	if len(rets) == 0 {
		panic(&GoPanic{Kind: "unsupported", Msg: "summarise: no return in " + fn.String()})
	}
	acc := rets[len(rets)-1].v
	for k := len(rets) - 2; k >= 0; k-- {
		acc = ex.iteValue(rets[k].p, rets[k].v, acc)
	}
	return acc
}
