package main

import (
	"fmt"
	"os"
	"path/filepath"
	"strings"

	"golang.org/x/tools/go/packages"
	"golang.org/x/tools/go/ssa"
	"golang.org/x/tools/go/ssa/ssautil"
)

const qeepMod = "github.com/sahandsafizadeh/qeep"

type Program struct {
	prog      *ssa.Program
	pkgs      map[string]*ssa.Package // by import path
	overlay   map[string][]byte
	repo      string
	srcLoaded []string
}

// overlayFiles maps /verif/harness/overlay/<rel> to <repo>/<rel>.
func overlayFiles(repo, hdir string, only ...string) (map[string][]byte, []string, error) {
	need := map[string]bool{}
	for _, o := range only {
		need[filepath.Clean(o)] = true
	}
	ov := map[string][]byte{}
	dirs := map[string]bool{}
	root := filepath.Join(hdir, "overlay")
	err := filepath.Walk(root, func(p string, info os.FileInfo, err error) error {
		if err != nil {
			return err
		}
		if info.IsDir() || !strings.HasSuffix(p, ".go") {
			return nil
		}
		rel, _ := filepath.Rel(root, p)
		if len(need) > 0 && !need[filepath.Dir(rel)] {
			return nil // harness packages this run does not use are not injected (one that does not compile cannot break the others)
		}
		data, err := os.ReadFile(p)
		if err != nil {
			return err
		}
		ov[filepath.Join(repo, rel)] = data
		dirs[filepath.Dir(rel)] = true
		return nil
	})
	var dl []string
	for d := range dirs {
		dl = append(dl, d)
	}
	return ov, dl, err
}

// LoadProgram loads the module at repo with the harness packages injected as an overlay; `only` restricts
// the injected harness packages (directories relative to the repo root; zzvrt is always included).
func LoadProgram(repo, hdir string, only ...string) (*Program, error) {
	if len(only) > 0 {
		only = append(only, "zzvrt")
	}
	ov, dirs, err := overlayFiles(repo, hdir, only...)
	if err != nil {
		return nil, err
	}
	cfg := &packages.Config{
		Mode: packages.NeedName | packages.NeedFiles | packages.NeedCompiledGoFiles | packages.NeedImports |
			packages.NeedDeps | packages.NeedTypes | packages.NeedSyntax | packages.NeedTypesInfo | packages.NeedTypesSizes | packages.NeedModule,
		Dir:     repo,
		Overlay: ov,
		Env:     append(os.Environ(), "GOFLAGS=-mod=mod", "GOPROXY=off", "GOSUMDB=off", "GOTOOLCHAIN=local"),
		Tests:   false,
	}
	patterns := []string{"./..."}
	for _, d := range dirs {
		patterns = append(patterns, "./"+d)
	}
	pkgs, err := packages.Load(cfg, patterns...)
	if err != nil {
		return nil, err
	}
	nerr := 0
	packages.Visit(pkgs, nil, func(p *packages.Package) {
		for _, e := range p.Errors {
			fmt.Fprintf(os.Stderr, "load error: %s: %v\n", p.PkgPath, e)
			nerr++
		}
	})
	if nerr > 0 {
		return nil, fmt.Errorf("%d package load errors", nerr)
	}
	prog, spkgs := ssautil.AllPackages(pkgs, ssa.InstantiateGenerics)
	P := &Program{prog: prog, pkgs: map[string]*ssa.Package{}, overlay: ov, repo: repo}
	for i, sp := range spkgs {
		if sp == nil {
			return nil, fmt.Errorf("no SSA for %s", pkgs[i].PkgPath)
		}
		sp.Build()
		P.pkgs[sp.Pkg.Path()] = sp
	}
	// dependencies (gonum etc.) are built lazily by the executor
	return P, nil
}

func (P *Program) Func(pkgPath, name string) *ssa.Function {
	sp := P.pkgs[pkgPath]
	if sp == nil {
		for _, p := range P.prog.AllPackages() {
			if p.Pkg.Path() == pkgPath {
				sp = p
				break
			}
		}
	}
	if sp == nil {
		return nil
	}
	return sp.Func(name)
}
