package zzh

import (
	"math"

	vrt "github.com/sahandsafizadeh/qeep/zzvrt"
)

/* C05 — reductions return the defined statistic of the whole tensor or of each fibre. */

// checkStat asserts that got is the named statistic of the values v (len >= 1).
func checkStat(op string, got float64, v []float64) {
	n := len(v)
	// magnitude of the reference computation's intermediate values (native replay only): the native
	// tolerance is relative to it, so statistics of tiny data (1e-9) are compared meaningfully while
	// any backward-stable formulation still passes (error <= n*eps*scale).
	sc1, sc2 := 0., 0.
	if !vrt.Symbolic() {
		for _, x := range v {
			sc1 += math.Abs(x)
			sc2 += x * x
		}
	}
	switch op {
	case "Sum":
		s := 0.
		for _, x := range v {
			s += x
		}
		vrt.AssertEqFS("Sum", got, s, sc1)
	case "Avg", "Mean":
		s := 0.
		for _, x := range v {
			s += x
		}
		vrt.AssertEqFS(op, got, s/float64(n), sc1/float64(n))
	case "Max":
		ge, in := true, false
		for _, x := range v {
			ge = vrt.And(ge, got >= x)
			in = vrt.Or(in, got == x)
		}
		vrt.Assert("Max is an upper bound", ge)
		vrt.Assert("Max is attained", in)
	case "Min":
		le, in := true, false
		for _, x := range v {
			le = vrt.And(le, got <= x)
			in = vrt.Or(in, got == x)
		}
		vrt.Assert("Min is a lower bound", le)
		vrt.Assert("Min is attained", in)
	case "Var":
		vrt.AssertEqFS("Var", got, refVar(v), sc2)
	case "Std":
		vrt.Assert("Std is non-negative", got >= 0)
		vrt.AssertEqFS("Std squared is the variance", got*got, refVar(v), sc2)
	}
}

// refVar: unbiased sample variance, 0 for a single element.
func refVar(v []float64) float64 {
	n := len(v)
	if n == 1 {
		return 0
	}
	s := 0.
	for _, x := range v {
		s += x
	}
	mean := s / float64(n)
	q := 0.
	for _, x := range v {
		q += (x - mean) * (x - mean)
	}
	return q / float64(n-1)
}

func applyFull(op string, x T) float64 {
	switch op {
	case "Sum":
		return x.Sum()
	case "Max":
		return x.Max()
	case "Min":
		return x.Min()
	case "Avg":
		return x.Avg()
	case "Mean":
		return x.Mean()
	case "Var":
		return x.Var()
	case "Std":
		return x.Std()
	}
	return 0
}

func applyAlong(op string, x T, dim int) (T, error) {
	switch op {
	case "Sum":
		return x.SumAlong(dim)
	case "Max":
		return x.MaxAlong(dim)
	case "Min":
		return x.MinAlong(dim)
	case "Avg":
		return x.AvgAlong(dim)
	case "Mean":
		return x.MeanAlong(dim)
	case "Var":
		return x.VarAlong(dim)
	case "Std":
		return x.StdAlong(dim)
	}
	return nil, nil
}

func H_C05_full() {
	op := vrt.SParam("op")
	r := vrt.Param("rank")
	dims := symDims("d", r, vrt.Param("maxdim"))
	x, xe := mk("x", dims, vrt.Bool("tracked"))
	checkStat(op, applyFull(op, x), xe)
	vrt.Reach("done")
}

func H_C05_along() {
	op := vrt.SParam("op")
	r := vrt.Param("rank")
	dims := symDims("d", r, vrt.Param("maxdim"))
	for i := range dims {
		dims[i] = vrt.Concretize(dims[i])
	}
	dim := vrt.Concretize(vrt.Int("dim", 0, r-1))
	x, xe := mk("x", dims, vrt.Bool("tracked"))
	y, err := applyAlong(op, x, dim)
	vrt.Assert("valid dim accepted", err == nil)
	if err != nil {
		return
	}
	odims := make([]int, 0, r)
	odims = append(odims, dims[:dim]...)
	odims = append(odims, dims[dim+1:]...)
	if !sameDims(vrt.Dims(y), odims) {
		vrt.Assert("shape is the operand's with dim removed", false)
		return
	}
	vrt.Assert("Shape()", sameDims(y.Shape(), odims))
	f := vrt.Flat(y)
	if len(f) != numel(odims) {
		vrt.Assert("element count", false)
		return
	}
	oidx := make([]int, r-1)
	idx := make([]int, r)
	fibre := make([]float64, dims[dim])
	for k := range f {
		unravel(k, odims, oidx)
		copy(idx[:dim], oidx[:dim])
		copy(idx[dim+1:], oidx[dim:])
		for j := range fibre {
			idx[dim] = j
			fibre[j] = xe[ravel(idx, dims)]
		}
		checkStat(op, f[k], fibre)
	}
	vrt.Reach("done")
}

// bigVector builds a vector of n elements for the size-ladder harnesses: elements are fixed small
// integers except a handful of solver-chosen ones (head, tail, and every 509th position), so that a
// whole-tensor statistic is decided by the solver while the interpretation stays linear in n.  What the
// ladder is for: code paths that exist only above a size threshold (chunked or parallel folds).
func bigVector(name string, n int, tailOnly bool) (T, []float64) {
	e := make([]float64, n)
	for k := range e {
		// (a running maximum that is symbolic early nests one ite per later element: extrema get the
		// solver-chosen elements at the tail only)
		if k >= n-9 || (!tailOnly && (k < 2 || k%509 == 0)) {
			e[k] = vrt.Float(name, k)
		} else {
			e[k] = float64(k%7 - 3)
		}
	}
	return fromFlat(e, []int{n}, false), e
}

// H_C05_big: whole-tensor reductions and the Along forms of a [n/8, 8]-shaped matrix at ladder sizes.
func H_C05_big() {
	op := vrt.SParam("op")
	n := vrt.Param("n")
	x, xe := bigVector("x", n, op == "Max" || op == "Min")
	checkStat(op, applyFull(op, x), xe)
	if n%8 == 0 {
		m, err := x.Reshape([]int{n / 8, 8})
		if err != nil {
			vrt.Assume(false)
		}
		checkStat(op, applyFull(op, m), xe)
		if op != "Sum" {
			vrt.Reach("done")
			return
		}
		cols, err := m.SumAlong(0)
		vrt.Assert("SumAlong accepted", err == nil)
		if err == nil {
			want := make([]float64, 8)
			for k := range xe {
				want[k%8] += xe[k]
			}
			checkTensor("SumAlong(0) of a tall matrix", cols, []int{8}, want)
		}
	}
	vrt.Reach("done")
}

// H_C05_fp: bit-precise (IEEE-754 binary64) sign of the variance: for every vector of n finite elements
// of magnitude <= 1e6, Var is a number >= 0 and Std is a number >= 0 (not NaN).  A one-pass formula
// (sum x^2 - (sum x)^2/n) loses this to cancellation.
func H_C05_fp() {
	n := vrt.Param("n")
	x, xe := mk("x", []int{n}, false)
	for k := range xe {
		vrt.Assume(vrt.And(xe[k] >= -1e6, xe[k] <= 1e6))
	}
	v := x.Var()
	vrt.Assert("bit-precise: Var is a number >= 0 (not NaN, not negative)", v >= 0)
	vrt.Assert("bit-precise: Var of magnitudes <= 1e6 is finite", v <= 1e300)
	vrt.Reach("done")
}

// H_C05_fpcond: bit-precise (binary64) accuracy of the variance on ill-conditioned data: n elements in
// [1e8, 1e8+1] (large mean, spread <= 1).  The reference is the two-pass definition evaluated in
// binary64 by the harness; the assertion allows 1e-6 relative + 1e-6 absolute error, which every
// backward-stable formulation (two-pass, Welford, pairwise sums) meets by 6+ orders of magnitude, and
// which the one-pass "sum x^2 - (sum x)^2/n" formula misses by 6 (error ~ eps * 1e16 ~ 1).
func H_C05_fpcond() {
	n := vrt.Param("n")
	x, xe := mk("x", []int{n}, false)
	for k := range xe {
		vrt.Assume(vrt.And(xe[k] >= 1e8, xe[k] <= 1e8+1))
	}
	s := 0.
	for k := range xe {
		s = s + xe[k]
	}
	m := s / float64(n)
	q := 0.
	for k := range xe {
		d := xe[k] - m
		q = q + d*d
	}
	ref := q / float64(n-1)
	tol := 1e-6*ref + 1e-6
	v := x.Var()
	vrt.Assert("bit-precise: Var of ill-conditioned data (mean 1e8, spread <= 1) is within 1e-6 rel + 1e-6 abs of the two-pass value", vrt.And(v <= ref+tol, v >= ref-tol))
	vrt.Reach("done")
}
