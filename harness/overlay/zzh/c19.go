package zzh

import (
	"github.com/sahandsafizadeh/qeep/component/metrics"
	"github.com/sahandsafizadeh/qeep/tensor"
	vrt "github.com/sahandsafizadeh/qeep/zzvrt"
)

// The running counts are observed and preset through vrt.IntField / vrt.SetIntField (found by name,
// embedded structs included), through the public constructor: the harness does not compile against the
// layout of Accuracy.
func accWith(T, C int) *metrics.Accuracy {
	acc := metrics.NewAccuracy()
	vrt.SetIntField(acc, "total", T)
	vrt.SetIntField(acc, "correct", C)
	return acc
}

func accTotal(a *metrics.Accuracy) int   { return vrt.IntField(a, "total") }
func accCorrect(a *metrics.Accuracy) int { return vrt.IntField(a, "correct") }

/* C19 — Accuracy equals matched over total across everything accumulated.
   One inductive step from an ARBITRARY pre-state {total:T, correct:C} (0<=C<=T<2^40): additivity of one
   Accumulate call covers histories of any length and every re-partition of the same data. */

func zzLabels(name string, n int) (tensor.Tensor, []float64) {
	e := make([]float64, n)
	for k := range e {
		e[k] = vrt.FloatN(name, k) // arbitrary label values, NaN included (a NaN equals nothing)
	}
	d := make([]float64, n)
	copy(d, e)
	t, err := tensor.TensorOf(d, nil)
	if err != nil {
		vrt.Assume(false)
	}
	return t, e
}

func zzPre() (*metrics.Accuracy, int, int) {
	T := vrt.Int("T", 0, 1<<40)
	C := vrt.Int("C", 0, 1<<40)
	vrt.Assume(C <= T)
	return accWith(T, C), T, C
}

func zzCheckResult(label string, acc *metrics.Accuracy, T, C int) {
	res, err := acc.Result()
	vrt.Assert(label+": Result returns no error", err == nil)
	if T == 0 {
		vrt.AssertEqF(label+": Result is 0 before anything was accepted", res, 0)
		return
	}
	vrt.AssertEqF(label+": Result = correct / total", res, float64(C)/float64(T))
	vrt.Assert(label+": Result lies in [0,1]", vrt.And(res >= 0, res <= 1))
}

func H_C19_step() {
	acc, T, C := zzPre()
	n := vrt.Concretize(vrt.Int("n", 1, vrt.Param("maxn")))
	yp, pe := zzLabels("p", n)
	yt, te := zzLabels("t", n)
	matched := 0
	for k := 0; k < n; k++ {
		d := pe[k] - te[k]
		nan := vrt.Or(vrt.IsNaN(pe[k]), vrt.IsNaN(te[k]))
		vrt.Assume(vrt.Or(nan, vrt.Or(pe[k] == te[k], vrt.Or(d > 1e-200, d < -1e-200))))
		if pe[k] == te[k] {
			matched++
		}
	}
	err := acc.Accumulate(yp, yt)
	vrt.Assert("valid batch accepted", err == nil)
	if err != nil {
		return
	}
	vrt.Assert("total grows by the batch size", accTotal(acc) == T+n)
	vrt.Assert("correct grows by the number of equal positions", accCorrect(acc) == C+matched)
	zzCheckResult("after step", acc, T+n, C+matched)
	vrt.Reach("done")
}

// H_C19_split: the same data in one call or split into two calls leaves the same counters.
func H_C19_split() {
	acc1, T, C := zzPre()
	acc2 := accWith(T, C)
	n := vrt.Concretize(vrt.Int("n", 2, vrt.Param("maxn")))
	s := vrt.Concretize(vrt.Int("s", 1, n-1))
	pe := make([]float64, n)
	te := make([]float64, n)
	for k := 0; k < n; k++ {
		pe[k], te[k] = vrt.FloatN("p", k), vrt.FloatN("t", k)
		d := pe[k] - te[k]
		nan := vrt.Or(vrt.IsNaN(pe[k]), vrt.IsNaN(te[k]))
		vrt.Assume(vrt.Or(nan, vrt.Or(pe[k] == te[k], vrt.Or(d > 1e-200, d < -1e-200))))
	}
	mkT := func(e []float64) tensor.Tensor {
		d := make([]float64, len(e))
		copy(d, e)
		t, err := tensor.TensorOf(d, nil)
		if err != nil {
			vrt.Assume(false)
		}
		return t
	}
	e0 := acc1.Accumulate(mkT(pe), mkT(te))
	e1 := acc2.Accumulate(mkT(pe[:s]), mkT(te[:s]))
	e2 := acc2.Accumulate(mkT(pe[s:]), mkT(te[s:]))
	vrt.Assert("valid batches accepted", vrt.And(e0 == nil, vrt.And(e1 == nil, e2 == nil)))
	if e0 != nil || e1 != nil || e2 != nil {
		return
	}
	vrt.Assert("total does not depend on the split", accTotal(acc1) == accTotal(acc2))
	vrt.Assert("correct does not depend on the split", accCorrect(acc1) == accCorrect(acc2))
	vrt.Reach("done")
}

// H_C19_invalid: a rejected call leaves the running counts unchanged.
func H_C19_invalid() {
	acc, T, C := zzPre()
	mode := vrt.Param("mode")
	var yp, yt tensor.Tensor
	a, _ := zzLabels("p", 2)
	b, _ := zzLabels("t", 3)
	switch mode {
	case 0:
		yp, yt = nil, a
	case 1:
		yp, yt = a, nil
	case 2:
		yp, yt = a, b // mismatched lengths
	case 3:
		s, _ := tensor.TensorOf(vrt.Float("s"), nil) // rank 0
		yp, yt = s, s
	case 4:
		m, _ := tensor.TensorOf([][]float64{{vrt.Float("m", 0), vrt.Float("m", 1)}}, nil) // rank 2
		yp, yt = m, m
	case 5:
		yp, yt = nil, nil
	}
	var err error
	panicked := vrt.Try(func() { err = acc.Accumulate(yp, yt) })
	vrt.Assert("invalid call does not panic", !panicked)
	vrt.Assert("invalid call is rejected", err != nil)
	vrt.Assert("rejected call leaves total unchanged", accTotal(acc) == T)
	vrt.Assert("rejected call leaves correct unchanged", accCorrect(acc) == C)
	zzCheckResult("after rejected call", acc, T, C)
	vrt.Reach("done")
}

// H_C19_fp: the same step decided bit-precisely (float64 = IEEE-754 binary64, int = 64-bit words): a
// batch of exactly n positions whose match pattern is arbitrary, from a fresh accumulator or from an
// arbitrary small pre-state.  Whatever float arithmetic Accumulate uses on the way to its integer
// counters must be exact for every match count, and Result must be the correctly rounded quotient.
func H_C19_fp() {
	n := vrt.Param("n")
	T := vrt.Int("T", 0, 1<<20)
	C := vrt.Int("C", 0, 1<<20)
	vrt.Assume(C <= T)
	acc := accWith(T, C)
	pd := make([]float64, n)
	td := make([]float64, n)
	matched := 0
	prefix := vrt.Param("prefix") == 1
	m := 0
	if prefix {
		m = vrt.Int("m", 0, n) // the first m positions match: every match COUNT, n+1 patterns instead of 2^n
	}
	for k := 0; k < n; k++ {
		hit := k < m
		if !prefix {
			hit = vrt.Bool(vrt.Nm("hit", k))
		}
		td[k] = float64(k%3) + 1
		pd[k] = vrt.IteF(hit, td[k], 0)
		matched += vrt.IteI(hit, 1, 0)
	}
	yp, e1 := tensor.TensorOf(pd, nil)
	yt, e2 := tensor.TensorOf(td, nil)
	if e1 != nil || e2 != nil {
		vrt.Assume(false)
	}
	err := acc.Accumulate(yp, yt)
	vrt.Assert("valid batch accepted", err == nil)
	if err != nil {
		return
	}
	vrt.Assert("bit-precise: total grows by the batch size", accTotal(acc) == T+n)
	vrt.Assert("bit-precise: correct grows by the number of equal positions", accCorrect(acc) == C+matched)
	res, rerr := acc.Result()
	vrt.Assert("bit-precise: Result returns no error", rerr == nil)
	// with the two counter equalities above this is matched / total, correctly rounded
	vrt.Assert("bit-precise: Result is the correctly rounded quotient of the counters", res == float64(accCorrect(acc))/float64(accTotal(acc)))
	vrt.Reach("done")
}

// H_C19_big: one Accumulate of a batch at a ladder size (hundreds to thousands of positions): fixed
// match pattern except a handful of solver-chosen positions (head, tail, every 509th), fresh or
// arbitrary pre-state.  For code paths that exist only above a size threshold.
func H_C19_big() {
	acc, T, C := zzPre()
	n := vrt.Param("n")
	pd := make([]float64, n)
	td := make([]float64, n)
	matched := 0
	for k := 0; k < n; k++ {
		td[k] = float64(k%5) + 1
		if k < 2 || k >= n-9 || k%509 == 0 {
			hit := vrt.Bool(vrt.Nm("hit", k))
			pd[k] = vrt.IteF(hit, td[k], 0)
			matched += vrt.IteI(hit, 1, 0)
		} else if k%3 == 0 {
			pd[k] = td[k]
			matched++
		}
	}
	yp, e1 := tensor.TensorOf(pd, nil)
	yt, e2 := tensor.TensorOf(td, nil)
	if e1 != nil || e2 != nil {
		vrt.Assume(false)
	}
	err := acc.Accumulate(yp, yt)
	vrt.Assert("valid batch accepted", err == nil)
	if err != nil {
		return
	}
	vrt.Assert("large batch: total grows by the batch size", accTotal(acc) == T+n)
	vrt.Assert("large batch: correct grows by the number of equal positions", accCorrect(acc) == C+matched)
	res, rerr := acc.Result()
	vrt.Assert("large batch: Result returns no error", rerr == nil)
	vrt.AssertEqF("large batch: Result = correct / total", res, float64(C+matched)/float64(T+n))
	vrt.Reach("done")
}
