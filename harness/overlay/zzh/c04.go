package zzh

import (
	"github.com/sahandsafizadeh/qeep/tensor"
	vrt "github.com/sahandsafizadeh/qeep/zzvrt"
)

/* C04 — MatMul, Dot and Transpose implement batched linear algebra for every shape. */

// refMatMul: a [..Ba, m, n] x b [..Bb, n, k] with broadcast batch dims.
func refMatMul(ae []float64, da []int, be []float64, db []int) ([]float64, []int) {
	ra, rb := len(da), len(db)
	m, n, k := da[ra-2], da[ra-1], db[rb-1]
	ba, bb := da[:ra-2], db[:rb-2]
	B := bshape(ba, bb)
	odims := make([]int, 0, len(B)+2)
	odims = append(odims, B...)
	odims = append(odims, m, k)
	nb := numel(B)
	out := make([]float64, nb*m*k)
	bidx := make([]int, len(B))
	for q := 0; q < nb; q++ {
		unravel(q, B, bidx)
		oa := bsrc(bidx, ba) * m * n
		ob := bsrc(bidx, bb) * n * k
		for i := 0; i < m; i++ {
			for j := 0; j < k; j++ {
				s := 0.
				for p := 0; p < n; p++ {
					s += ae[oa+i*n+p] * be[ob+p*k+j]
				}
				out[(q*m+i)*k+j] = s
			}
		}
	}
	return out, odims
}

func refTranspose(e []float64, d []int) ([]float64, []int) {
	r := len(d)
	m, n := d[r-2], d[r-1]
	od := make([]int, r)
	copy(od, d)
	od[r-2], od[r-1] = n, m
	out := make([]float64, len(e))
	nb := len(e) / (m * n)
	for q := 0; q < nb; q++ {
		for i := 0; i < m; i++ {
			for j := 0; j < n; j++ {
				out[q*m*n+j*m+i] = e[q*m*n+i*n+j]
			}
		}
	}
	return out, od
}

// drawMatMulShapes draws operand shapes [..Ba,m,n], [..Bb,n,k] with compatible batch parts.
func drawMatMulShapes(ra, rb, maxd int) (da, db []int) {
	ba, bb := drawCompat(ra-2, rb-2, maxd)
	m := vrt.Concretize(vrt.Int("m", 1, maxd))
	n := vrt.Concretize(vrt.Int("n", 1, maxd))
	k := vrt.Concretize(vrt.Int("k", 1, maxd))
	da = append(append([]int{}, ba...), m, n)
	db = append(append([]int{}, bb...), n, k)
	return
}

func H_C04_matmul() {
	da, db := drawMatMulShapes(vrt.Param("ra"), vrt.Param("rb"), vrt.Param("maxdim"))
	a, ae := mk("x", da, vrt.Bool("ta"))
	b, be := mk("y", db, vrt.Bool("tb"))
	maybeUsedTogether(a, b)
	y, err := a.MatMul(b)
	vrt.Assert("valid matmul accepted", err == nil)
	if err != nil {
		return
	}
	want, odims := refMatMul(ae, da, be, db)
	checkTensor("MatMul", y, odims, want)
	checkTensor("MatMul leaves a", a, da, ae)
	checkTensor("MatMul leaves b", b, db, be)
	vrt.Reach("done")
}

func H_C04_dot() {
	ra, rb := vrt.Param("ra"), vrt.Param("rb")
	maxd := vrt.Param("maxdim")
	la, lb := drawCompat(ra-1, rb-1, maxd)
	n := vrt.Concretize(vrt.Int("n", 1, maxd))
	da := append(append([]int{}, la...), n)
	db := append(append([]int{}, lb...), n)
	a, ae := mk("x", da, vrt.Bool("ta"))
	b, be := mk("y", db, vrt.Bool("tb"))
	maybeUsedTogether(a, b)
	y, err := a.Dot(b)
	vrt.Assert("valid dot accepted", err == nil)
	if err != nil {
		return
	}
	B := bshape(la, lb)
	want := make([]float64, numel(B))
	idx := make([]int, len(B))
	for q := range want {
		unravel(q, B, idx)
		oa, ob := bsrc(idx, la)*n, bsrc(idx, lb)*n
		s := 0.
		for p := 0; p < n; p++ {
			s += ae[oa+p] * be[ob+p]
		}
		want[q] = s
	}
	checkTensor("Dot", y, B, want)
	vrt.Reach("done")
}

func H_C04_transpose() {
	r := vrt.Param("rank")
	dims := symDims("d", r, vrt.Param("maxdim"))
	for i := range dims {
		dims[i] = vrt.Concretize(dims[i])
	}
	x, xe := mk("x", dims, vrt.Bool("tracked"))
	y, err := x.Transpose()
	vrt.Assert("valid transpose accepted", err == nil)
	if err != nil {
		return
	}
	want, od := refTranspose(xe, dims)
	checkTensor("Transpose", y, od, want)
	vrt.Reach("done")
}

// H_C04_identities: A.I = A and (A.B)^T = B^T.A^T through the public API only.
func H_C04_identities() {
	da, db := drawMatMulShapes(vrt.Param("ra"), vrt.Param("ra"), vrt.Param("maxdim"))
	a, ae := mk("x", da, false)
	b, _ := mk("y", db, false)
	maybeUsedTogether(a, b)
	ra := len(da)
	n := da[ra-1]
	eye, err := tensor.Eye(n, nil)
	vrt.Assert("Eye accepted", err == nil)
	if err != nil {
		return
	}
	ai, err := a.MatMul(eye)
	vrt.Assert("A.I accepted", err == nil)
	if err == nil {
		checkTensor("A.I = A", ai, da, ae)
	}
	ab, err := a.MatMul(b)
	vrt.Assert("A.B accepted", err == nil)
	if err != nil {
		return
	}
	abt, e1 := ab.Transpose()
	at, e2 := a.Transpose()
	bt, e3 := b.Transpose()
	vrt.Assert("transposes accepted", vrt.And(e1 == nil, vrt.And(e2 == nil, e3 == nil)))
	if e1 != nil || e2 != nil || e3 != nil {
		return
	}
	btat, err := bt.MatMul(at)
	vrt.Assert("B^T.A^T accepted", err == nil)
	if err == nil {
		checkTensor("(A.B)^T = B^T.A^T", abt, vrt.Dims(btat), vrt.Flat(btat))
	}
	vrt.Reach("done")
}
