package zzh

import (
	"github.com/sahandsafizadeh/qeep/tensor"
	vrt "github.com/sahandsafizadeh/qeep/zzvrt"
)

/* C09 — every public call is total: a well-formed result or an error, never a panic.
   Every integer argument is a solver variable in [-2,6]; slices have solver-chosen length and may be
   nil; tensor operands have solver-chosen rank/shape or are nil.  Preconditions: DESIGN Appendix A. */

// anyInts draws a slice of solver-chosen length 0..maxLen (nil when the flag is set) with entries in [lo,hi].
func anyInts(name string, maxLen, lo, hi int) []int {
	n := vrt.Concretize(vrt.Int(name+"_len", 0, maxLen))
	if n == 0 && vrt.Bool(name+"_nil") {
		return nil
	}
	s := make([]int, n)
	for i := range s {
		s[i] = vrt.Int(vrt.Nm(name, i), lo, hi)
	}
	return s
}

// anyTensor draws nil, or a tensor of rank 0..maxRank with sizes 1..maxDim.
func anyTensor(name string, maxRank, maxDim int, allowNil bool) (T, []int) {
	if allowNil && vrt.Bool(name+"_isnil") {
		return nil, nil
	}
	r := vrt.Concretize(vrt.Int(name+"_rank", 0, maxRank))
	dims := symDims(name+"_d", r, maxDim)
	concDims(dims)
	x, _ := mk(name, dims, vrt.Bool(name+"_tracked"))
	return x, dims
}

func allPositive(s []int) bool {
	ok := true
	for _, v := range s {
		ok = vrt.And(ok, v > 0)
	}
	return ok
}

// outcome asserts the totality contract of one call.
//
//	panicked: the call panicked;  err: its error;  res: its tensor result (nil if it has none);
//	valid: the documented precondition;  shape: the defined result shape (checked when hasShape).
func outcome(label string, panicked bool, err error, res T, hasRes bool, valid bool, shape []int, hasShape bool) {
	vrt.Assert(label+": does not panic", !panicked)
	if panicked {
		return
	}
	if !valid {
		vrt.Assert(label+": violated precondition is reported as an error", err != nil)
		if hasRes {
			vrt.Assert(label+": no result on error", res == nil)
		}
		vrt.Reach("rejected")
		return
	}
	vrt.Assert(label+": valid arguments are accepted", err == nil)
	if err != nil {
		return
	}
	if hasRes {
		if res == nil {
			vrt.Assert(label+": a result is returned on success", false)
			return
		}
		if hasShape {
			concDims(shape)
			vrt.Assert(label+": result has the defined shape", sameDims(vrt.Dims(res), shape))
			vrt.Assert(label+": Shape() agrees", sameDims(res.Shape(), shape))
			vrt.Assert(label+": NElems agrees", res.NElems() == numel(shape))
		}
	}
	vrt.Reach("accepted")
}

func confMode() (*tensor.Config, bool) {
	switch vrt.Param("conf") {
	case 0:
		return nil, true
	case 1:
		return &tensor.Config{Device: tensor.CPU, GradTrack: vrt.Bool("gt")}, true
	}
	d := vrt.Int("device", -1, 3)
	return &tensor.Config{Device: tensor.Device(d), GradTrack: vrt.Bool("gt")}, d == 1
}

func H_C09_construct() {
	which := vrt.SParam("fn")
	c, cok := confMode()
	var res T
	var err error
	var valid bool
	var shape []int
	var p bool
	switch which {
	case "Full", "Zeros", "Ones":
		dims := anyInts("dims", 3, -2, 6)
		valid = vrt.And(cok, allPositive(dims))
		shape = append([]int{}, dims...)
		v := vrt.Float("v")
		p = vrt.Try(func() {
			switch which {
			case "Full":
				res, err = tensor.Full(dims, v, c)
			case "Zeros":
				res, err = tensor.Zeros(dims, c)
			default:
				res, err = tensor.Ones(dims, c)
			}
		})
	case "Eye":
		n := vrt.Int("n", -2, 6)
		valid = vrt.And(cok, n > 0)
		shape = []int{n, n}
		p = vrt.Try(func() { res, err = tensor.Eye(n, c) })
	case "RandU":
		dims := anyInts("dims", 2, -2, 4)
		l, u := vrt.Float("l"), vrt.Float("u")
		valid = vrt.And(cok, vrt.And(allPositive(dims), l < u))
		shape = append([]int{}, dims...)
		p = vrt.Try(func() { res, err = tensor.RandU(dims, l, u, c) })
	case "RandN":
		dims := anyInts("dims", 2, -2, 4)
		m, s := vrt.Float("m"), vrt.Float("s")
		valid = vrt.And(cok, vrt.And(allPositive(dims), s > 0))
		shape = append([]int{}, dims...)
		p = vrt.Try(func() { res, err = tensor.RandN(dims, m, s, c) })
	}
	outcome(which, p, err, res, true, valid, shape, true)
}

/* ----- TensorOf with rectangular or ragged nested data ----- */

func raggedLen(name string, lo, hi int) int {
	return vrt.Concretize(vrt.Int(name, lo, hi))
}

func H_C09_tensorof() {
	depth := vrt.Param("depth")
	lo, hi := vrt.Param("lo"), vrt.Param("hi")
	c, cok := confMode()
	var res T
	var err error
	var p bool
	rect := true
	var shape []int
	switch depth {
	case 0:
		v := vrt.Float("v")
		shape = []int{}
		p = vrt.Try(func() { res, err = tensor.TensorOf(v, c) })
	case 1:
		n := raggedLen("n", 0, hi)
		d := make([]float64, n)
		if n == 0 && vrt.Bool("isnil") {
			d = nil
		}
		for i := range d {
			d[i] = vrt.Float("e", i)
		}
		rect = n > 0
		shape = []int{n}
		p = vrt.Try(func() { res, err = tensor.TensorOf(d, c) })
	case 2:
		n0 := raggedLen("n", 0, hi)
		d := make([][]float64, n0)
		rect = n0 > 0
		n1 := -1
		for i := range d {
			l := raggedLen(vrt.Nm("n", i), lo, hi)
			d[i] = make([]float64, l)
			for j := range d[i] {
				d[i][j] = vrt.Float("e", i, j)
			}
			if n1 < 0 {
				n1 = l
			}
			rect = rect && l > 0 && l == n1
		}
		shape = []int{n0, n1}
		p = vrt.Try(func() { res, err = tensor.TensorOf(d, c) })
	case 3:
		n0 := raggedLen("n", 0, hi)
		d := make([][][]float64, n0)
		rect = n0 > 0
		n1, n2 := -1, -1
		for i := range d {
			l1 := raggedLen(vrt.Nm("n", i), lo, hi)
			d[i] = make([][]float64, l1)
			if n1 < 0 {
				n1 = l1
			}
			rect = rect && l1 > 0 && l1 == n1
			for j := range d[i] {
				l2 := raggedLen(vrt.Nm("n", i, j), lo, hi)
				d[i][j] = make([]float64, l2)
				for k := range d[i][j] {
					d[i][j][k] = vrt.Float("e", i, j, k)
				}
				if n2 < 0 {
					n2 = l2
				}
				rect = rect && l2 > 0 && l2 == n2
			}
		}
		shape = []int{n0, n1, n2}
		p = vrt.Try(func() { res, err = tensor.TensorOf(d, c) })
	case 4:
		n0 := raggedLen("n", 0, hi)
		d := make([][][][]float64, n0)
		rect = n0 > 0
		n1, n2, n3 := -1, -1, -1
		for i := range d {
			l1 := raggedLen(vrt.Nm("n", i), lo, hi)
			d[i] = make([][][]float64, l1)
			if n1 < 0 {
				n1 = l1
			}
			rect = rect && l1 > 0 && l1 == n1
			for j := range d[i] {
				l2 := raggedLen(vrt.Nm("n", i, j), lo, hi)
				d[i][j] = make([][]float64, l2)
				if n2 < 0 {
					n2 = l2
				}
				rect = rect && l2 > 0 && l2 == n2
				for k := range d[i][j] {
					l3 := raggedLen(vrt.Nm("n", i, j, k), lo, hi)
					d[i][j][k] = make([]float64, l3)
					for m := range d[i][j][k] {
						d[i][j][k][m] = vrt.Float("e", i, j, k, m)
					}
					if n3 < 0 {
						n3 = l3
					}
					rect = rect && l3 > 0 && l3 == n3
				}
			}
		}
		shape = []int{n0, n1, n2, n3}
		p = vrt.Try(func() { res, err = tensor.TensorOf(d, c) })
	}
	valid := cok && rect
	outcome("TensorOf", p, err, res, true, valid, shape, true)
	if !p && err == nil && res != nil && valid {
		// a well-formed result is usable: every element can be read
		var sum float64
		q := vrt.Try(func() { sum = res.Sum() })
		vrt.Assert("TensorOf result is well-formed (Sum does not panic)", !q)
		_ = sum
	}
}

func H_C09_concat() {
	n := vrt.Concretize(vrt.Int("count", 0, 3))
	var ts []T
	if n > 0 || !vrt.Bool("ts_nil") {
		ts = make([]T, n)
	}
	dimsOf := make([][]int, n)
	anyNil := false
	for i := 0; i < n; i++ {
		ts[i], dimsOf[i] = anyTensor(vrt.Nm("t", i), 2, 2, true)
		if ts[i] == nil {
			anyNil = true
		}
	}
	dim := vrt.Int("dim", -2, 6)
	valid := n >= 2 && !anyNil
	var shape []int
	if valid {
		r := len(dimsOf[0])
		valid = r >= 1
		for i := 1; i < n; i++ {
			valid = valid && len(dimsOf[i]) == r
		}
		if valid {
			dv := vrt.And(0 <= dim, dim < r)
			if !dv {
				valid = false
			} else {
				d := vrt.Concretize(dim)
				shape = append([]int{}, dimsOf[0]...)
				tot := 0
				for i := 0; i < n; i++ {
					for j := 0; j < r; j++ {
						if j != d && dimsOf[i][j] != dimsOf[0][j] {
							valid = false
						}
					}
					tot += dimsOf[i][d]
				}
				shape[d] = tot
			}
		}
	}
	var res T
	var err error
	p := vrt.Try(func() { res, err = tensor.Concat(ts, dim) })
	outcome("Concat", p, err, res, true, valid, shape, true)
}

func H_C09_backprop() {
	x, _ := anyTensor("x", 2, 2, true)
	var err error
	p := vrt.Try(func() { err = tensor.BackPropagate(x) })
	outcome("BackPropagate", p, err, nil, false, x != nil, nil, false)
}

/* ----- tensor methods with integer / slice arguments ----- */

func validRange(f, t, size int) bool {
	return vrt.Or(vrt.And(f == 0, t == 0), vrt.And(vrt.And(0 <= f, f < t), t <= size))
}

func anyRanges(name string, maxLen int) []tensor.Range {
	n := vrt.Concretize(vrt.Int(name+"_len", 0, maxLen))
	if n == 0 && vrt.Bool(name+"_nil") {
		return nil
	}
	s := make([]tensor.Range, n)
	for i := range s {
		s[i] = tensor.Range{From: vrt.Int(vrt.Nm(name+"_from", i), -2, 6), To: vrt.Int(vrt.Nm(name+"_to", i), -2, 6)}
	}
	return s
}

func H_C09_method() {
	fn := vrt.SParam("fn")
	x, S := anyTensor("x", vrt.Param("maxrank"), vrt.Param("maxdim"), false)
	r := len(S)
	var res T
	var err error
	var p bool
	valid := true
	var shape []int
	hasShape := true
	switch fn {
	case "At":
		idx := anyInts("idx", 3, -2, 6)
		valid = len(idx) == r
		if valid {
			for i, v := range idx {
				valid = vrt.And(valid, vrt.And(0 <= v, v < S[i]))
			}
		}
		var val float64
		p = vrt.Try(func() { val, err = x.At(idx...) })
		_ = val
		outcome("At", p, err, nil, false, valid, nil, false)
		return
	case "Slice":
		index := anyRanges("ix", 3)
		valid = len(index) <= r
		shape = append([]int{}, S...)
		if valid {
			for i, rg := range index {
				valid = vrt.And(valid, validRange(rg.From, rg.To, S[i]))
				shape[i] = vrt.IteI(vrt.And(rg.From == 0, rg.To == 0), S[i], rg.To-rg.From)
			}
		}
		p = vrt.Try(func() { res, err = x.Slice(index) })
	case "Patch":
		u, U := anyTensor("u", 2, 3, true)
		index := anyRanges("ix", 3)
		valid = u != nil && len(U) == r && len(index) <= r
		if valid {
			for i := range U {
				valid = valid && U[i] <= S[i]
			}
			for i, rg := range index {
				whole := vrt.And(rg.From == 0, rg.To == 0)
				valid = vrt.And(valid, validRange(rg.From, rg.To, S[i]))
				valid = vrt.And(valid, vrt.Or(whole, rg.To-rg.From == U[i]))
			}
		}
		shape = append([]int{}, S...)
		p = vrt.Try(func() { res, err = x.Patch(index, u) })
	case "Transpose":
		valid = r >= 2
		if valid {
			shape = append([]int{}, S...)
			shape[r-2], shape[r-1] = S[r-1], S[r-2]
		}
		p = vrt.Try(func() { res, err = x.Transpose() })
	case "Reshape":
		sh := anyInts("shape", 3, -2, 6)
		prod := 1
		for _, v := range sh {
			prod = prod * v
		}
		valid = vrt.And(allPositive(sh), prod == numel(S))
		shape = append([]int{}, sh...)
		p = vrt.Try(func() { res, err = x.Reshape(sh) })
	case "Broadcast":
		sh := anyInts("shape", 3, -2, 4)
		valid = vrt.And(allPositive(sh), r <= len(sh))
		if r <= len(sh) {
			for i := 0; i < r; i++ {
				t := sh[i+len(sh)-r]
				valid = vrt.And(valid, vrt.Or(S[i] == t, S[i] == 1))
			}
		}
		shape = append([]int{}, sh...)
		p = vrt.Try(func() { res, err = x.Broadcast(sh) })
	case "UnSqueeze":
		dim := vrt.Int("dim", -2, 6)
		valid = vrt.And(0 <= dim, dim <= r)
		if valid {
			d := vrt.Concretize(dim)
			shape = append(append(append([]int{}, S[:d]...), 1), S[d:]...)
		}
		p = vrt.Try(func() { res, err = x.UnSqueeze(dim) })
	case "Squeeze":
		dim := vrt.Int("dim", -2, 6)
		valid = vrt.And(0 <= dim, dim < r)
		if valid {
			d := vrt.Concretize(dim)
			valid = S[d] == 1
			shape = append(append([]int{}, S[:d]...), S[d+1:]...)
		}
		p = vrt.Try(func() { res, err = x.Squeeze(dim) })
	case "Flatten":
		dim := vrt.Int("dim", -2, 6)
		valid = vrt.And(0 <= dim, dim < r)
		if valid {
			d := vrt.Concretize(dim)
			shape = append(append([]int{}, S[:d]...), numel(S[d:]))
		}
		p = vrt.Try(func() { res, err = x.Flatten(dim) })
	default: // the seven reducers along a dimension
		dim := vrt.Int("dim", -2, 6)
		valid = vrt.And(0 <= dim, dim < r)
		if valid {
			d := vrt.Concretize(dim)
			shape = append(append([]int{}, S[:d]...), S[d+1:]...)
		}
		p = vrt.Try(func() { res, err = applyAlong(fn[:len(fn)-5], x, dim) })
	}
	outcome(fn, p, err, res, true, valid, shape, hasShape)
}

func compat(a, b []int) bool {
	for i := 1; i <= len(a) && i <= len(b); i++ {
		x, y := a[len(a)-i], b[len(b)-i]
		if x != y && x != 1 && y != 1 {
			return false
		}
	}
	return true
}

func H_C09_binary() {
	fn := vrt.SParam("fn")
	x, S := anyTensor("x", vrt.Param("maxrank"), 2, false)
	u, U := anyTensor("u", vrt.Param("maxrank"), 3, true)
	r, ru := len(S), len(U)
	valid := u != nil
	var shape []int
	switch fn {
	case "Eq", "Ne", "Gt", "Ge", "Lt", "Le", "ElMax", "ElMin", "Equals":
		valid = valid && sameDims(S, U)
		shape = S
	case "Add", "Sub", "Mul", "Div":
		valid = valid && compat(S, U)
		if valid {
			shape = bshape(S, U)
		}
	case "Dot":
		valid = valid && r >= 1 && ru >= 1 && S[r-1] == U[ru-1] && compat(S, U)
		if valid {
			b := bshape(S, U)
			shape = b[:len(b)-1]
		}
	case "MatMul":
		valid = valid && r >= 2 && ru >= 2 && S[r-1] == U[ru-2] && compat(S[:r-2], U[:ru-2])
		if valid {
			shape = append(append([]int{}, bshape(S[:r-2], U[:ru-2])...), S[r-2], U[ru-1])
		}
	}
	if fn == "Equals" {
		var err error
		var eq bool
		p := vrt.Try(func() { eq, err = x.Equals(u) })
		_ = eq
		outcome(fn, p, err, nil, false, valid, nil, false)
		return
	}
	var res T
	var err error
	p := vrt.Try(func() { res, err = applyBinary(fn, x, u) })
	outcome(fn, p, err, res, true, valid, shape, true)
}

// H_C09_total: methods without an error result never panic, whatever the receiver and arguments.
func H_C09_total() {
	x, S := anyTensor("x", 2, 2, false)
	c := vrt.Float("c")
	p := vrt.Try(func() {
		_ = x.NElems()
		_ = x.Shape()
		_, _, _, _, _, _, _ = x.Sum(), x.Max(), x.Min(), x.Avg(), x.Var(), x.Std(), x.Mean()
		for _, op := range unaryOpNames {
			y := applyUnary(op, x, c)
			if y == nil || !sameDims(vrt.Dims(y), S) {
				vrt.Assert(op+": result has the operand's shape", false)
			}
		}
		_ = x.Gradient()
		_ = x.GradContext()
		x.ResetGradContext(vrt.Bool("rb"))
	})
	vrt.Assert("total methods do not panic", !p)
	vrt.Reach("accepted")
}

var unaryOpNames = []string{"Scale", "Pow", "Exp", "Log", "Sin", "Cos", "Tan", "Sinh", "Cosh", "Tanh"}
