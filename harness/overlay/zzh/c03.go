package zzh

import (
	vrt "github.com/sahandsafizadeh/qeep/zzvrt"
)

/* C03 — element-wise operations and implicit broadcasting compute the defined values. */

func H_C03_unary() {
	op := vrt.SParam("op")
	r := vrt.Param("rank")
	dims := symDims("d", r, vrt.Param("maxdim"))
	x, xe := mk("x", dims, vrt.Bool("tracked"))
	c := vrt.Float("c")
	switch vrt.Param("cmode") {
	case 1:
		c = 0
	case 2:
		c = 1
	case 3:
		c = 2
	case 4:
		c = -1
	case 5:
		c = 0.5
	case 6:
		c = 3
	case 7:
		c = -2
	}
	y := applyUnary(op, x, c)
	want := make([]float64, len(xe))
	for k := range want {
		want[k] = refUnary(op, xe[k], c)
	}
	checkTensor(op, y, dims, want)
	checkTensor(op+" leaves operand", x, dims, xe)
	vrt.Reach("done")
}

func H_C03_binary() {
	op := vrt.SParam("op")
	da, db := drawCompat(vrt.Param("ra"), vrt.Param("rb"), vrt.Param("maxdim"))
	a, ae := mk("x", da, vrt.Bool("ta"))
	b, be := mk("y", db, vrt.Bool("tb"))
	maybeUsedTogether(a, b)
	y, err := applyBinary(op, a, b)
	vrt.Assert("compatible shapes accepted", err == nil)
	if err != nil {
		return
	}
	S := bshape(da, db)
	want := make([]float64, numel(S))
	idx := make([]int, len(S))
	for k := range want {
		unravel(k, S, idx)
		want[k] = refBinary(op, ae[bsrc(idx, da)], be[bsrc(idx, db)])
	}
	checkTensor(op, y, S, want)
	scale := make([]float64, len(want))
	for k := range scale {
		unravel(k, S, idx)
		if op == "Add" || op == "Sub" {
			scale[k] = absF(ae[bsrc(idx, da)]) + absF(be[bsrc(idx, db)])
		}
	}
	checkTensorS(op+" (at the magnitude of the operands)", y, S, want, scale)
	// identical to broadcasting explicitly first
	ab, err1 := a.Broadcast(S)
	bb, err2 := b.Broadcast(S)
	vrt.Assert("explicit broadcast accepted", vrt.And(err1 == nil, err2 == nil))
	if err1 == nil && err2 == nil {
		z, err := applyBinary(op, ab, bb)
		vrt.Assert("op on explicitly broadcast operands accepted", err == nil)
		if err == nil {
			checkTensor(op+" after explicit broadcast", z, S, want)
		}
	}
	vrt.Reach("done")
}

func H_C03_cmp() {
	op := vrt.SParam("op")
	r := vrt.Param("rank")
	dims := symDims("d", r, vrt.Param("maxdim"))
	a, ae := mk("x", dims, vrt.Bool("ta"))
	b, be := mk("y", dims, vrt.Bool("tb"))
	maybeUsedTogether(a, b)
	if op == "Eq" || op == "Ne" || op == "Equals" {
		for k := range ae {
			tieOrFar(ae[k], be[k])
		}
	}
	if op == "Equals" {
		got, err := a.Equals(b)
		vrt.Assert("same shapes accepted", err == nil)
		if err != nil {
			return
		}
		all := true
		for k := range ae {
			all = vrt.And(all, ae[k] == be[k])
		}
		vrt.Assert("Equals iff every position equal", got == all)
		vrt.Reach("done")
		return
	}
	y, err := applyBinary(op, a, b)
	vrt.Assert("same shapes accepted", err == nil)
	if err != nil {
		return
	}
	want := make([]float64, len(ae))
	for k := range want {
		want[k] = refBinary(op, ae[k], be[k])
	}
	checkTensor(op, y, dims, want)
	if op != "ElMax" && op != "ElMin" {
		f := vrt.Flat(y)
		for k := range f {
			vrt.Assert("comparison yields exactly 0 or 1", vrt.Or(f[k] == 0, f[k] == 1))
		}
	}
	vrt.Reach("done")
}
