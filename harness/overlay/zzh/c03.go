package zzh

import (
	vrt "github.com/sahandsafizadeh/qeep/zzvrt"
)

/* C03 — element-wise operations and implicit broadcasting compute the defined values. */

func H_C03_unary() {
	op := vrt.SParam("op")
	r := vrt.Param("rank")
	dims := symDims("d", r, vrt.Param("maxdim"))
	x, xe := mk("x", dims, vrt.Bool("tracked"))
	c := vrt.Float("c")
	switch vrt.Param("cmode") {
	case 1:
		c = 0
	case 2:
		c = 1
	case 3:
		c = 2
	case 4:
		c = -1
	case 5:
		c = 0.5
	case 6:
		c = 3
	case 7:
		c = -2
	}
	y := applyUnary(op, x, c)
	want := make([]float64, len(xe))
	for k := range want {
		want[k] = refUnary(op, xe[k], c)
	}
	checkTensor(op, y, dims, want)
	checkTensor(op+" leaves operand", x, dims, xe)
	vrt.Reach("done")
}

func H_C03_binary() {
	op := vrt.SParam("op")
	da, db := drawCompat(vrt.Param("ra"), vrt.Param("rb"), vrt.Param("maxdim"))
	a, ae := mk("x", da, vrt.Bool("ta"))
	b, be := mk("y", db, vrt.Bool("tb"))
	maybeUsedTogether(a, b)
	y, err := applyBinary(op, a, b)
	vrt.Assert("compatible shapes accepted", err == nil)
	if err != nil {
		return
	}
	S := bshape(da, db)
	want := make([]float64, numel(S))
	idx := make([]int, len(S))
	for k := range want {
		unravel(k, S, idx)
		want[k] = refBinary(op, ae[bsrc(idx, da)], be[bsrc(idx, db)])
	}
	checkTensor(op, y, S, want)
	scale := make([]float64, len(want))
	for k := range scale {
		unravel(k, S, idx)
		if op == "Add" || op == "Sub" {
			scale[k] = absF(ae[bsrc(idx, da)]) + absF(be[bsrc(idx, db)])
		}
	}
	checkTensorS(op+" (at the magnitude of the operands)", y, S, want, scale)
	// identical to broadcasting explicitly first
	ab, err1 := a.Broadcast(S)
	bb, err2 := b.Broadcast(S)
	vrt.Assert("explicit broadcast accepted", vrt.And(err1 == nil, err2 == nil))
	if err1 == nil && err2 == nil {
		z, err := applyBinary(op, ab, bb)
		vrt.Assert("op on explicitly broadcast operands accepted", err == nil)
		if err == nil {
			checkTensor(op+" after explicit broadcast", z, S, want)
		}
	}
	vrt.Reach("done")
}

func H_C03_cmp() {
	op := vrt.SParam("op")
	r := vrt.Param("rank")
	dims := symDims("d", r, vrt.Param("maxdim"))
	a, ae := mk("x", dims, vrt.Bool("ta"))
	b, be := mk("y", dims, vrt.Bool("tb"))
	maybeUsedTogether(a, b)
	if op == "Eq" || op == "Ne" || op == "Equals" {
		for k := range ae {
			tieOrFar(ae[k], be[k])
		}
	}
	if op == "Equals" {
		got, err := a.Equals(b)
		vrt.Assert("same shapes accepted", err == nil)
		if err != nil {
			return
		}
		all := true
		for k := range ae {
			all = vrt.And(all, ae[k] == be[k])
		}
		vrt.Assert("Equals iff every position equal", got == all)
		vrt.Reach("done")
		return
	}
	y, err := applyBinary(op, a, b)
	vrt.Assert("same shapes accepted", err == nil)
	if err != nil {
		return
	}
	want := make([]float64, len(ae))
	for k := range want {
		want[k] = refBinary(op, ae[k], be[k])
	}
	checkTensor(op, y, dims, want)
	if op != "ElMax" && op != "ElMin" {
		f := vrt.Flat(y)
		for k := range f {
			vrt.Assert("comparison yields exactly 0 or 1", vrt.Or(f[k] == 0, f[k] == 1))
		}
	}
	vrt.Reach("done")
}

// H_C03_fp: BIT-PRECISE (binary64) selection and comparison: for all finite doubles, ElMax / ElMin return
// one of their two operands unchanged (no arithmetic that could round it) and bound both; Gt/Ge/Lt/Le
// return exactly 1 or 0 according to the IEEE comparison.  The real-number model cannot see a selection
// implemented by arithmetic blending (b + m*(a-b)), which is exact over the reals and rounds in binary64.
func H_C03_fp() {
	op := vrt.SParam("op")
	n := vrt.Param("n")
	a, ae := mk("x", []int{n}, vrt.Bool("ta"))
	b, be := mk("y", []int{n}, false)
	for k := range ae {
		vrt.Assume(vrt.And(ae[k] >= -1e300, ae[k] <= 1e300))
		vrt.Assume(vrt.And(be[k] >= -1e300, be[k] <= 1e300))
	}
	y, err := applyBinary(op, a, b)
	vrt.Assert("same shapes accepted", err == nil)
	if err != nil {
		return
	}
	f := vrt.Flat(y)
	vrt.Assert("one result element per operand element", len(f) == n)
	if len(f) != n {
		return
	}
	for k := range f {
		switch op {
		case "ElMax":
			vrt.Assert("bit-precise: ElMax bounds both operands from above", vrt.And(f[k] >= ae[k], f[k] >= be[k]))
			vrt.Assert("bit-precise: ElMax returns one of its operands unchanged", vrt.Or(f[k] == ae[k], f[k] == be[k]))
		case "ElMin":
			vrt.Assert("bit-precise: ElMin bounds both operands from below", vrt.And(f[k] <= ae[k], f[k] <= be[k]))
			vrt.Assert("bit-precise: ElMin returns one of its operands unchanged", vrt.Or(f[k] == ae[k], f[k] == be[k]))
		case "Gt":
			vrt.Assert("bit-precise: Gt is exactly 1 or 0 by the IEEE comparison", f[k] == vrt.IteF(ae[k] > be[k], 1, 0))
		case "Ge":
			vrt.Assert("bit-precise: Ge is exactly 1 or 0 by the IEEE comparison", f[k] == vrt.IteF(ae[k] >= be[k], 1, 0))
		case "Lt":
			vrt.Assert("bit-precise: Lt is exactly 1 or 0 by the IEEE comparison", f[k] == vrt.IteF(ae[k] < be[k], 1, 0))
		case "Le":
			vrt.Assert("bit-precise: Le is exactly 1 or 0 by the IEEE comparison", f[k] == vrt.IteF(ae[k] <= be[k], 1, 0))
		}
	}
	vrt.Reach("done")
}

// H_C03_big: element-wise binary operations and Scale on operands of thousands of elements (code paths
// behind a size threshold: chunked or parallel kernels): every position, the trailing rows included,
// holds the defined value.
func H_C03_big() {
	op := vrt.SParam("op")
	dims := []int{vrt.Param("n0")}
	if n1 := vrt.ParamOr("n1", 0); n1 > 0 {
		dims = append(dims, n1)
	}
	a, ae := bigTensor("x", dims, false)
	b, be := bigTensor("y", dims, false)
	want := make([]float64, len(ae))
	if op == "Scale" {
		u := vrt.Float("u")
		y := a.Scale(u)
		for k := range want {
			want[k] = u * ae[k]
		}
		checkTensor("Scale on a large operand", y, dims, want)
		vrt.Reach("done")
		return
	}
	if op == "Div" {
		for k := range be {
			vrt.Assume(be[k] >= 0.5)
		}
	}
	y, err := applyBinary(op, a, b)
	vrt.Assert("same shapes accepted", err == nil)
	if err != nil {
		return
	}
	for k := range want {
		want[k] = refBinary(op, ae[k], be[k])
	}
	checkTensor(op+" on large operands", y, dims, want)
	vrt.Reach("done")
}
