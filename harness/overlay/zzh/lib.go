// Package zzh holds the verification harnesses and reference models (public API only).
package zzh

import (
	"github.com/sahandsafizadeh/qeep/tensor"
	vrt "github.com/sahandsafizadeh/qeep/zzvrt"
)

type T = tensor.Tensor

func conf(tracked bool) *tensor.Config {
	return &tensor.Config{Device: tensor.CPU, GradTrack: tracked}
}

func numel(dims []int) int {
	n := 1
	for _, d := range dims {
		n *= d
	}
	return n
}

// unravel writes the row-major multi-index of k into idx.
func unravel(k int, dims []int, idx []int) {
	for i := len(dims) - 1; i >= 0; i-- {
		idx[i] = k % dims[i]
		k /= dims[i]
	}
}

func ravel(idx []int, dims []int) int {
	k := 0
	for i := range dims {
		k = k*dims[i] + idx[i]
	}
	return k
}

// symDims draws a shape of the given rank with every size in 1..maxd.
func symDims(name string, rank, maxd int) []int {
	dims := make([]int, rank)
	for i := range dims {
		dims[i] = vrt.Int(vrt.Nm(name, i), 1, maxd)
	}
	return dims
}

// elems draws n nondet floats name_0 .. name_{n-1}.
func elems(name string, n int) []float64 {
	e := make([]float64, n)
	for k := range e {
		e[k] = vrt.Float(name, k)
	}
	return e
}

// fromFlat builds a tensor of the given shape holding e in row-major order, through TensorOf.
func fromFlat(e []float64, dims []int, tracked bool) T {
	c := conf(tracked)
	var t T
	var err error
	switch len(dims) {
	case 0:
		t, err = tensor.TensorOf(e[0], c)
	case 1:
		d := make([]float64, dims[0])
		copy(d, e)
		t, err = tensor.TensorOf(d, c)
	case 2:
		k := 0
		d := make([][]float64, dims[0])
		for i := range d {
			d[i] = make([]float64, dims[1])
			for j := range d[i] {
				d[i][j] = e[k]
				k++
			}
		}
		t, err = tensor.TensorOf(d, c)
	case 3:
		k := 0
		d := make([][][]float64, dims[0])
		for i := range d {
			d[i] = make([][]float64, dims[1])
			for j := range d[i] {
				d[i][j] = make([]float64, dims[2])
				for l := range d[i][j] {
					d[i][j][l] = e[k]
					k++
				}
			}
		}
		t, err = tensor.TensorOf(d, c)
	case 4:
		k := 0
		d := make([][][][]float64, dims[0])
		for i := range d {
			d[i] = make([][][]float64, dims[1])
			for j := range d[i] {
				d[i][j] = make([][]float64, dims[2])
				for l := range d[i][j] {
					d[i][j][l] = make([]float64, dims[3])
					for m := range d[i][j][l] {
						d[i][j][l][m] = e[k]
						k++
					}
				}
			}
		}
		t, err = tensor.TensorOf(d, c)
	default:
		// rank 5..6: build flat and reshape (relies on Reshape, which C06 checks on its own)
		d := make([]float64, len(e))
		copy(d, e)
		var f T
		f, err = tensor.TensorOf(d, conf(false))
		if err == nil {
			t, err = f.Reshape(dims)
			if err == nil {
				t.ResetGradContext(tracked)
			}
		}
	}
	if err != nil || t == nil {
		vrt.Assert("harness: tensor construction", false)
		vrt.Assume(false)
	}
	return t
}

// mk draws a tensor of the given shape with nondet elements name_k.  The work-item parameter "via"
// (default 0) selects the provenance of the object: the properties speak about tensors, not about
// tensors fresh out of TensorOf, so the same assertions are also decided for operands that were used
// before and for operands that other operations produced from used tensors.
func mk(name string, dims []int, tracked bool) (T, []float64) {
	e := elems(name, numel(dims))
	v := vrt.ParamOr("via", 0)
	if v == 0 {
		return fromFlat(e, dims, tracked), e
	}
	return derived(v, name, e, dims, tracked), e
}

// touch uses a tensor the way earlier code may have: reductions, shape modifiers, arithmetic with
// itself.  Results are discarded; errors are the operation's business, not the harness's.
func touch(x T) {
	_, _, _ = x.Sum(), x.Std(), x.Avg()
	_, _ = x.Transpose()
	_, _ = x.Add(x)
	_, _ = x.MatMul(x)
	d := vrt.Dims(x)
	_, _ = x.Broadcast(append([]int{2}, d...))
	_, _ = x.Slice(nil)
	_, _ = x.Equals(x)
	if len(d) > 0 {
		_, _ = x.SumAlong(0)
		_, _ = x.Flatten(0)
	}
}

// usedTogether is touch for a pair of operands.
func usedTogether(a, b T) {
	_, _ = a.MatMul(b)
	_, _ = b.MatMul(a)
	_, _ = a.Add(b)
	_, _ = b.Div(a)
	_, _ = a.Equals(b)
	_, _ = a.ElMax(b)
}

// maybeUsedTogether: operands of the provenance variants (via != 0) have a common past as well.
func maybeUsedTogether(a, b T) {
	if vrt.ParamOr("via", 0) != 0 {
		usedTogether(a, b)
	}
}

func fullIndex(dims []int) []tensor.Range {
	idx := make([]tensor.Range, len(dims))
	for i := range idx {
		idx[i] = tensor.Range{From: 0, To: dims[i]}
	}
	return idx
}

// derived builds the tensor holding e through the provenance v:
// 1 a used tensor of other elements, fully overwritten by Patch   2 Slice(nil) of a used tensor
// 3 Reshape of a used rank-1 tensor   4 a used tensor transposed twice   5 Concat of two used parts
// 6 Scale(1) of a used tensor   7 the used tensor itself
func derived(v int, name string, e []float64, dims []int, tracked bool) T {
	var y T
	var err error
	switch {
	case v == 1 && len(dims) > 0:
		base := fromFlat(elems(name+"o", len(e)), dims, false)
		touch(base)
		u := fromFlat(e, dims, false)
		touch(u)
		y, err = base.Patch(fullIndex(dims), u)
	case v == 2:
		x := fromFlat(e, dims, false)
		touch(x)
		y, err = x.Slice(nil)
	case v == 3:
		x := fromFlat(e, []int{len(e)}, false)
		touch(x)
		y, err = x.Reshape(dims)
	case v == 4 && len(dims) >= 2:
		x := fromFlat(e, dims, false)
		touch(x)
		y, err = x.Transpose()
		if err == nil {
			touch(y)
			y, err = y.Transpose()
		}
	case v == 5 && len(dims) > 0 && dims[0] >= 2:
		row := len(e) / dims[0]
		top := append([]int{1}, dims[1:]...)
		rest := append([]int{dims[0] - 1}, dims[1:]...)
		a := fromFlat(e[:row], top, false)
		b := fromFlat(e[row:], rest, false)
		touch(a)
		touch(b)
		y, err = tensor.Concat([]T{a, b}, 0)
	case v == 6:
		x := fromFlat(e, dims, false)
		touch(x)
		y = x.Scale(1)
	default:
		x := fromFlat(e, dims, false)
		touch(x)
		y = x
	}
	if err != nil || y == nil {
		vrt.Assert("harness: derived tensor construction", false)
		vrt.Assume(false)
	}
	y.ResetGradContext(tracked)
	return y
}

func sameDims(a, b []int) bool {
	if len(a) != len(b) {
		return false
	}
	for i := range a {
		if a[i] != b[i] {
			return false
		}
	}
	return true
}

// checkTensor asserts shape and element-wise equality against a flat reference.
// checkTensorS is checkTensor with a per-element magnitude scale for the native tolerance (vrt.AssertEqFS).
func checkTensorS(label string, t T, dims []int, want, scale []float64) {
	if t == nil || !sameDims(vrt.Dims(t), dims) || len(vrt.Flat(t)) != len(want) {
		checkTensor(label, t, dims, want)
		return
	}
	f := vrt.Flat(t)
	for k := range f {
		vrt.AssertEqFS(label, f[k], want[k], scale[k])
	}
}

func absF(x float64) float64 { return vrt.IteF(x >= 0, x, -x) }

func checkTensor(label string, t T, dims []int, want []float64) {
	if t == nil {
		vrt.Assert(label+": non-nil", false)
		return
	}
	got := vrt.Dims(t)
	if !sameDims(got, dims) {
		vrt.Assert(label+": shape", false)
		return
	}
	vrt.Assert(label+": Shape()", sameDims(t.Shape(), dims))
	vrt.Assert(label+": NElems is the product of Shape", t.NElems() == numel(dims))
	f := vrt.Flat(t)
	if len(f) != len(want) {
		vrt.Assert(label+": element count", false)
		return
	}
	for k := range f {
		vrt.AssertEqF(label, f[k], want[k])
	}
}
