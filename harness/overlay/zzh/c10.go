package zzh

import (
	"github.com/sahandsafizadeh/qeep/component/optimizers"
	"github.com/sahandsafizadeh/qeep/tensor"
	vrt "github.com/sahandsafizadeh/qeep/zzvrt"
)

/* C10 — tensors behave as immutable values decoupled from caller-owned slices. */

// c10Only: the kinds of location C10 speaks about (shape, elements, tracking state); a private cache
// field is not covered by C10 (it is by C20, where it would be a shared write).
const c10Only = "only=CPUTensor.data,CPUTensor.dims,CPUTensor.gctx,GradContext.tracked,GradContext.bpdirty,GradContext.gradient,GradContext.backEdges,elem,Range.From,Range.To"

type c10State struct {
	t              T
	dims           []int
	elems          []float64
	tracked, dirty bool
	grad           T
	edges          int
}

func c10Capture(t T) c10State {
	return c10State{t: t, dims: vrt.Dims(t), elems: vrt.Flat(t), tracked: vrt.Tracked(t), dirty: vrt.Dirty(t), grad: t.Gradient(), edges: vrt.NumEdges(t)}
}

// c10Same asserts that nothing observable about the tensor changed (allowGrad: BackPropagate may
// assign a gradient and the spent flag).
func c10Same(label string, s c10State, allowGrad bool) {
	checkTensor(label+": shape and elements unchanged", s.t, s.dims, s.elems)
	vrt.Assert(label+": tracking unchanged", vrt.Tracked(s.t) == s.tracked)
	vrt.Assert(label+": graph edges unchanged", vrt.NumEdges(s.t) == s.edges)
	if !allowGrad {
		vrt.Assert(label+": spent flag unchanged", vrt.Dirty(s.t) == s.dirty)
		vrt.Assert(label+": gradient unchanged", s.t.Gradient() == s.grad)
	}
}

// H_C10_frame: a forward operation writes to no pre-existing object.
func H_C10_frame() {
	op := vrt.SParam("op")
	n := c08Arity(op)
	xs := make([]T, n)
	st := make([]c10State, n)
	for i := range xs {
		xs[i], _ = operandInState(vrt.Nm("x", i), opShapeOf(op, i), vrt.Concretize(vrt.Int(vrt.Nm("state", i), 0, 2)))
		st[i] = c10Capture(xs[i])
	}
	if n == 1 {
		vrt.FootprintBegin(xs[0])
	} else if n == 2 {
		vrt.FootprintBegin(xs[0], xs[1])
	} else {
		vrt.FootprintBegin(xs[0], xs[1], xs[2])
	}
	y, err := c08Apply(op, xs)
	writes := vrt.FootprintEnd(c10Only)
	if err != nil || y == nil {
		vrt.Assert("operation accepted", false)
		return
	}
	vrt.Assert(op+": writes to no pre-existing tensor's shape, elements or tracking state", writes == 0)
	vrt.FootprintBegin(xs[0])
	scalarAccessors(xs[0])
	vrt.Assert("value-returning methods (reductions, NElems, Shape, At, Equals, ...) write to no pre-existing tensor's shape, elements or tracking state", vrt.FootprintEnd(c10Only) == 0)
	for i := range xs {
		c10Same(op+" operand", st[i], false)
	}
	vrt.Reach("done")
}

// H_C10_backprop: BackPropagate assigns gradients and spent flags, nothing else; Update replaces the
// pointee only; ResetGradContext replaces the receiver's context only.
func H_C10_backprop() {
	dims := []int{2, 2}
	a, _ := mk("a", dims, true)
	b, _ := mk("b", dims, vrt.Bool("tb"))
	c, _ := mk("c", dims, false)
	ab, err := a.Mul(b)
	if err != nil {
		vrt.Assume(false)
	}
	y, err := ab.Add(c)
	if err != nil {
		vrt.Assume(false)
	}
	sa, sb, sc, sab, sy := c10Capture(a), c10Capture(b), c10Capture(c), c10Capture(ab), c10Capture(y)
	vrt.FootprintBegin(a, b, c, ab, y)
	berr := tensor.BackPropagate(y)
	w := vrt.FootprintEnd("allow=GradContext.gradient,GradContext.bpdirty;" + c10Only)
	vrt.Assert("BackPropagate succeeds", berr == nil)
	vrt.Assert("BackPropagate writes only gradients and spent flags", w == 0)
	c10Same("BackPropagate: leaf a", sa, true)
	c10Same("BackPropagate: leaf b", sb, true)
	c10Same("BackPropagate: untracked c", sc, false)
	c10Same("BackPropagate: interior", sab, true)
	c10Same("BackPropagate: root", sy, true)

	// SGD.Update replaces the pointee and touches nothing else
	sa = c10Capture(a)
	ptr := a
	opt := optimizers.NewSGD(&optimizers.SGDConfig{LearningRate: vrt.Float("lr")})
	vrt.FootprintBegin(a, b, c, ab, y)
	uerr := opt.Update(&ptr)
	w = vrt.FootprintEnd("allow=Tensor;" + c10Only)
	vrt.Assert("Update succeeds", uerr == nil)
	vrt.Assert("Update writes only the pointee", w == 0)
	c10Same("Update: previous tensor", sa, false)

	// ResetGradContext replaces only the receiver's context
	sb = c10Capture(b)
	vrt.FootprintBegin(a, b, c, ab, y)
	a.ResetGradContext(vrt.Bool("rt"))
	w = vrt.FootprintEnd("allow=CPUTensor.gctx;" + c10Only)
	vrt.Assert("ResetGradContext writes only the receiver's context", w == 0)
	checkTensor("ResetGradContext keeps shape and elements", a, sa.dims, sa.elems)
	c10Same("ResetGradContext: other tensor", sb, false)
	vrt.Reach("done")
}

func mutateInts(s []int, name string, lo, hi int) {
	for i := range s {
		s[i] = vrt.Int(vrt.Nm(name, i), lo, hi)
	}
}

// H_C10_alias_shape: dimension lists, nested data and Shape() results are decoupled.
func H_C10_alias_shape() {
	which := vrt.SParam("fn")
	r := vrt.Param("rank")
	dims := symDims("d", r, 2)
	concDims(dims)
	orig := append([]int{}, dims...)
	n := numel(orig)
	switch which {
	case "Full":
		v := vrt.Float("v")
		arg := append([]int{}, dims...)
		x, err := tensor.Full(arg, v, conf(vrt.Bool("tr")))
		if err != nil {
			vrt.Assert("accepted", false)
			return
		}
		mutateInts(arg, "mut", 1, 3)
		want := make([]float64, n)
		for k := range want {
			want[k] = v
		}
		checkTensor("Full: mutating the dims argument afterwards changes nothing", x, orig, want)
	case "TensorOf":
		if r != 2 {
			vrt.Reach("done")
			return
		}
		d := make([][]float64, dims[0])
		e := make([]float64, 0, n)
		for i := range d {
			d[i] = make([]float64, dims[1])
			for j := range d[i] {
				d[i][j] = vrt.Float("e", i, j)
				e = append(e, d[i][j])
			}
		}
		x, err := tensor.TensorOf(d, conf(vrt.Bool("tr")))
		if err != nil {
			vrt.Assert("accepted", false)
			return
		}
		for i := range d {
			for j := range d[i] {
				d[i][j] = vrt.Float("mut", i, j)
			}
		}
		checkTensor("TensorOf: mutating the nested data afterwards changes nothing", x, orig, e)
	case "Reshape", "Broadcast":
		x, xe := mk("x", dims, true)
		var arg []int
		var y T
		var err error
		var want []float64
		if which == "Reshape" {
			arg = []int{n}
			y, err = x.Reshape(arg)
			want = xe
		} else {
			arg = append([]int{2}, dims...)
			y, err = x.Broadcast(arg)
			want = append(append([]float64{}, xe...), xe...)
		}
		if err != nil {
			vrt.Assert("accepted", false)
			return
		}
		keep := append([]int{}, arg...)
		mutateInts(arg, "mut", 1, 3)
		checkTensor(which+": mutating the shape argument afterwards changes nothing", y, keep, want)
		if backprop(which, y) {
			g := x.Gradient()
			vrt.Assert(which+": gradient keeps the operand's shape after the mutation", g != nil && sameDims(vrt.Dims(g), orig))
		}
	case "Shape":
		x, xe := mk("x", dims, vrt.Bool("tr"))
		sh := x.Shape()
		mutateInts(sh, "mut", 1, 3)
		checkTensor("Shape: mutating the returned slice changes nothing", x, orig, xe)
		vrt.Assert("Shape: a second call returns the original shape", sameDims(x.Shape(), orig))
	}
	vrt.Reach("done")
}

// H_C10_alias_index: index ranges and tensor lists mutated between the forward call and BackPropagate.
func H_C10_alias_index() {
	which := vrt.SParam("fn")
	dims := []int{3, 2}
	mutRange := func(index []tensor.Range) {
		for i := range index {
			index[i] = tensor.Range{From: vrt.Int(vrt.Nm("mf", i), -1, 3), To: vrt.Int(vrt.Nm("mt", i), -1, 4)}
		}
	}
	switch which {
	case "Slice":
		x, _ := mk("x", dims, true)
		f := vrt.Concretize(vrt.Int("from", 0, 2))
		t := vrt.Concretize(vrt.Int("to", 1, 3))
		vrt.Assume(f < t)
		index := []tensor.Range{{From: f, To: t}}
		switch vrt.Concretize(vrt.Int("form", 0, 2)) { // partial, full-rank explicit, full-rank with {0,0}
		case 1:
			index = append(index, tensor.Range{From: 0, To: 2})
		case 2:
			index = append(index, tensor.Range{})
		}
		y, err := x.Slice(index)
		if err != nil {
			vrt.Assert("accepted", false)
			return
		}
		mutRange(index)
		ge, ok := backThrough(y)
		if !ok {
			return
		}
		want := zeros(6)
		for k := range ge {
			want[f*2+k] = ge[k]
		}
		checkGrad("Slice: gradient follows the index given at call time", x, true, dims, want)
	case "Patch":
		x, _ := mk("x", dims, true)
		p, _ := mk("p", []int{1, 2}, true)
		f := vrt.Concretize(vrt.Int("from", 0, 2))
		index := []tensor.Range{{From: f, To: f + 1}}
		switch vrt.Concretize(vrt.Int("form", 0, 2)) {
		case 1:
			index = append(index, tensor.Range{From: 0, To: 2})
		case 2:
			index = append(index, tensor.Range{})
		}
		y, err := x.Patch(index, p)
		if err != nil {
			vrt.Assert("accepted", false)
			return
		}
		mutRange(index)
		ge, ok := backThrough(y)
		if !ok {
			return
		}
		gx := append([]float64{}, ge...)
		gp := []float64{ge[f*2], ge[f*2+1]}
		gx[f*2], gx[f*2+1] = 0, 0
		checkGrad("Patch: target gradient follows the index given at call time", x, true, dims, gx)
		checkGrad("Patch: source gradient follows the index given at call time", p, true, []int{1, 2}, gp)
	case "Concat":
		a, _ := mk("a", []int{1, 2}, true)
		b, _ := mk("b", []int{2, 2}, true)
		z, _ := mk("z", []int{2, 2}, true)
		list := []T{a, b}
		y, err := tensor.Concat(list, 0)
		if err != nil {
			vrt.Assert("accepted", false)
			return
		}
		// the caller reuses its list
		list[0], list[1] = z, z
		ge, ok := backThrough(y)
		if !ok {
			return
		}
		checkGrad("Concat: first operand", a, true, []int{1, 2}, ge[:2])
		checkGrad("Concat: second operand", b, true, []int{2, 2}, ge[2:])
		vrt.Assert("Concat: a tensor put into the list afterwards receives nothing", z.Gradient() == nil)
	}
	vrt.Reach("done")
}
