package zzh

import (
	"math"

	"github.com/sahandsafizadeh/qeep/component/losses"
	"github.com/sahandsafizadeh/qeep/tensor"
	vrt "github.com/sahandsafizadeh/qeep/zzvrt"
)

/* C12 — loss functions return the defined scalar; C13 — their gradients are the analytic derivatives. */

const lossEps = 1e-12

func clipRef(v, l, u float64) float64 {
	lo := vrt.IteF(v <= u, v, u)
	return vrt.IteF(lo <= l, l, lo)
}

func computeLoss(name string, yp, yt T) (T, error) {
	return newLoss(name)(yp, yt)
}

// newLoss creates ONE loss object; the returned function computes with that object every time.
func newLoss(name string) func(yp, yt T) (T, error) {
	switch name {
	case "MSE":
		return losses.NewMSE().Compute
	case "BCE":
		return losses.NewBCE().Compute
	case "CE":
		return losses.NewCE().Compute
	}
	vrt.Assert("harness: unknown loss", false)
	return func(T, T) (T, error) { return nil, nil }
}

// warmUp uses a component once on a tracked input of the given shape, back-propagation included, the
// way an earlier training step would have ("warm" = 1 in the work item).
func warmUp(dims []int, positive bool, use func(x T) (T, error)) {
	if vrt.ParamOr("warm", 0) != 1 {
		return
	}
	w, we := mk("w", dims, true)
	if positive {
		for k := range we {
			vrt.Assume(vrt.And(we[k] >= 0.25, we[k] <= 0.75))
		}
	}
	y, err := use(w)
	if err != nil || y == nil || tensor.BackPropagate(y) != nil {
		vrt.Assume(false)
	}
}

// refLoss computes the defined scalar for flat predictions / targets of B rows and C classes.
func refLoss(name string, p, t []float64, B, C int) float64 {
	s := 0.
	switch name {
	case "MSE":
		for k := range p {
			d := t[k] - p[k]
			s += d * d
		}
		return s / float64(B)
	case "BCE":
		for k := range p {
			tc := clipRef(t[k], 0, 1)
			pc := clipRef(p[k], lossEps, 1-lossEps)
			a, b := tc*math.Log(pc), (1-tc)*math.Log(1-pc)
			vrt.Lemma("BCE summands are non-positive", vrt.And(a <= 0, b <= 0))
			s += a + b
		}
		return -s / float64(B)
	case "CE":
		for b := 0; b < B; b++ {
			for c := 0; c < C; c++ {
				k := b*C + c
				a := clipRef(t[k], 0, 1) * math.Log(clipRef(p[k], lossEps, 1-lossEps))
				vrt.Lemma("CE summands are non-positive", a <= 0)
				s += a
			}
		}
		return -s / float64(B)
	}
	return 0
}

func lossShape(name string) []int {
	B := vrt.Concretize(vrt.Int("B", 1, vrt.Param("maxb")))
	if name == "CE" {
		return []int{B, vrt.Concretize(vrt.Int("C", 1, vrt.Param("maxc")))}
	}
	return []int{B}
}

func H_C12_loss() {
	name := vrt.SParam("loss")
	dims := lossShape(name)
	B, C := dims[0], 1
	if len(dims) == 2 {
		C = dims[1]
	}
	yp, pe := mk("p", dims, vrt.Bool("tp"))
	yt, te := mk("t", dims, vrt.Bool("tt"))
	for k := range pe {
		vrt.Assume(vrt.And(pe[k] >= -1e6, pe[k] <= 1e6))
		vrt.Assume(vrt.And(te[k] >= -1e6, te[k] <= 1e6))
	}
	l, err := computeLoss(name, yp, yt)
	vrt.Assert("well-formed inputs accepted", err == nil)
	if err != nil || l == nil {
		return
	}
	vrt.Assert("loss is a scalar tensor", len(vrt.Dims(l)) == 0)
	f := vrt.Flat(l)
	if len(f) != 1 {
		vrt.Assert("loss holds one element", false)
		return
	}
	vrt.AssertFinite("loss is finite", f[0])
	vrt.AssertEqF("loss value", f[0], refLoss(name, pe, te, B, C))
	vrt.Assert("loss is non-negative", f[0] >= 0)
	vrt.Reach("done")
}

// H_C12_reuse: one loss object evaluated twice on pairs of independently chosen shapes: the value
// depends only on the pair handed in, never on an earlier call.
func H_C12_reuse() {
	name := vrt.SParam("loss")
	var compute func(yp, yt T) (T, error)
	switch name {
	case "MSE":
		compute = losses.NewMSE().Compute
	case "BCE":
		compute = losses.NewBCE().Compute
	default:
		compute = losses.NewCE().Compute
	}
	for call := 0; call < 2; call++ {
		B := vrt.Concretize(vrt.Int(vrt.Nm("B", call), 1, vrt.Param("maxb")))
		dims := []int{B}
		C := 1
		if name == "CE" {
			C = vrt.Concretize(vrt.Int(vrt.Nm("C", call), 1, vrt.Param("maxc")))
			dims = []int{B, C}
		}
		yp, pe := mk(vrt.Nm("p", call), dims, vrt.Bool(vrt.Nm("tp", call)))
		yt, te := mk(vrt.Nm("t", call), dims, false)
		for k := range pe {
			vrt.Assume(vrt.And(pe[k] >= -1e6, pe[k] <= 1e6))
			vrt.Assume(vrt.And(te[k] >= -1e6, te[k] <= 1e6))
		}
		l, err := compute(yp, yt)
		vrt.Assert("well-formed inputs accepted on every call of a reused loss object", err == nil)
		if err != nil || l == nil {
			return
		}
		f := vrt.Flat(l)
		if len(vrt.Dims(l)) != 0 || len(f) != 1 {
			vrt.Assert("loss is a scalar tensor", false)
			return
		}
		vrt.AssertFinite("loss is finite", f[0])
		vrt.AssertEqF("loss value (reused object)", f[0], refLoss(name, pe, te, B, C))
	}
	vrt.Reach("done")
}

// refLossGrad: d loss / d p[k].
func refLossGrad(name string, p, t float64, B int) float64 {
	n := float64(B)
	inside := vrt.And(p > lossEps, p < 1-lossEps)
	switch name {
	case "MSE":
		return 2 * (p - t) / n
	case "BCE":
		return vrt.IteF(inside, ((1-t)/(1-p)-t/p)/n, 0)
	case "CE":
		return vrt.IteF(inside, -(t/p)/n, 0)
	}
	return 0
}

func H_C13_lossgrad() {
	name := vrt.SParam("loss")
	upstream := vrt.Param("upstream") // 0: prediction is a tracked leaf, 1: prediction = q * r
	dims := lossShape(name)
	B := dims[0]
	n := numel(dims)
	var yp, q, r T
	var pe, qe, re []float64
	if upstream == 0 || upstream == 2 {
		yp, pe = mk("p", dims, true)
		if upstream == 2 {
			// a recycled leaf: it already went through a back-propagation and was reset to a fresh leaf
			other, err := yp.Mul(yp)
			if err != nil || !backprop("earlier use of the prediction", other) {
				vrt.Assume(false)
			}
			yp.ResetGradContext(true)
		}
	} else {
		q, qe = mk("q", dims, true)
		r, re = mk("r", dims, true)
		var err error
		yp, err = q.Mul(r)
		vrt.Assert("upstream product accepted", err == nil)
		if err != nil {
			return
		}
		pe = make([]float64, n)
		for k := range pe {
			pe[k] = qe[k] * re[k]
		}
	}
	yt, te := mk("t", dims, false)
	for k := 0; k < n; k++ {
		vrt.Assume(vrt.And(te[k] >= 0, te[k] <= 1))
		if name != "MSE" {
			vrt.Assume(vrt.And(pe[k] >= 0, pe[k] <= 1))
			// everywhere in [0,1] except at the two clipping bounds (no float64 other than the bound
			// itself lies within the library's 1e-240 tie tolerance of it)
			dl, du := pe[k]-lossEps, pe[k]-(1-lossEps)
			vrt.Assume(vrt.Or(dl > 1e-200, dl < -1e-200))
			vrt.Assume(vrt.Or(du > 1e-200, du < -1e-200))
		}
	}
	lossOf := newLoss(name)
	warmUp(dims, true, func(w T) (T, error) { return lossOf(w, yt) })
	l, err := lossOf(yp, yt)
	vrt.Assert("well-formed inputs accepted", err == nil)
	if err != nil || l == nil {
		return
	}
	if !backprop(name, l) {
		return
	}
	gp := make([]float64, n)
	for k := range gp {
		gp[k] = refLossGrad(name, pe[k], te[k], B)
	}
	checkGrad(name+" d/dprediction", yp, true, dims, gp)
	vrt.Assert("untracked target receives no gradient", yt.Gradient() == nil)
	if upstream == 1 {
		gq, gr := make([]float64, n), make([]float64, n)
		for k := range gp {
			gq[k] = gp[k] * re[k]
			gr[k] = gp[k] * qe[k]
		}
		checkGrad(name+" d/dq (chain)", q, true, dims, gq)
		checkGrad(name+" d/dr (chain)", r, true, dims, gr)
	}
	vrt.Reach("done")
}

// H_C12_fp: bit-precise (float64 = IEEE-754 binary64) sign and finiteness of the MSE scalar: for every
// pair of finite predictions / targets of magnitude <= 1e6 the loss is a number >= 0.  An algebraically
// equivalent but cancelling formula (e.g. t.t - 2 t.p + p.p) fails this in floating point only.
func H_C12_fp() {
	B := vrt.Param("b")
	dims := []int{B}
	yp, pe := mk("p", dims, vrt.Param("tracked") == 1)
	yt, te := mk("t", dims, false)
	for k := 0; k < B; k++ {
		vrt.Assume(vrt.And(pe[k] >= -1e6, pe[k] <= 1e6))
		vrt.Assume(vrt.And(te[k] >= -1e6, te[k] <= 1e6))
	}
	l, err := computeLoss("MSE", yp, yt)
	vrt.Assert("valid inputs accepted", err == nil)
	if err != nil || l == nil {
		return
	}
	f := vrt.Flat(l)
	vrt.Assert("bit-precise: MSE is a single number", len(f) == 1)
	vrt.Assert("bit-precise: MSE is a number >= 0 (not NaN, not negative)", f[0] >= 0)
	vrt.Assert("bit-precise: MSE of magnitudes <= 1e6 is finite", f[0] <= 1e300)
	vrt.Reach("done")
}

// H_C12_fpbce: BIT-PRECISE (binary64) finiteness and sign of the clipped cross-entropies: for predictions
// and targets of any finite magnitude <= 1e6 (far outside [0,1] included: they are clipped), BCE / CE is a
// number >= 0 and finite.  math.Log is an uninterpreted binary64 function with sign and range facts only.
// A clip that rounds (bound recomputed as p + (bound - p)) lets log(0) = -Inf through.
func H_C12_fpbce() {
	B := vrt.Param("b")
	loss := vrt.SParam("loss")
	dims := []int{B}
	if loss == "CE" {
		dims = []int{B, vrt.Param("c")}
	}
	yp, pe := mk("p", dims, vrt.Param("tracked") == 1)
	yt, te := mk("t", dims, false)
	for k := range pe {
		vrt.Assume(vrt.And(pe[k] >= -1e6, pe[k] <= 1e6))
		vrt.Assume(vrt.And(te[k] >= -1e6, te[k] <= 1e6))
	}
	l, err := computeLoss(loss, yp, yt)
	vrt.Assert("valid inputs accepted", err == nil)
	if err != nil || l == nil {
		return
	}
	f := vrt.Flat(l)
	vrt.Assert("bit-precise: the loss is a single number", len(f) == 1)
	vrt.Assert("bit-precise: the clipped cross-entropy is a number >= 0 (not NaN, not negative)", f[0] >= 0)
	vrt.Assert("bit-precise: the clipped cross-entropy of finite inputs is finite", f[0] <= 1e300)
	vrt.Reach("done")
}
