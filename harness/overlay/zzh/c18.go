package zzh

import (
	"math"

	"github.com/sahandsafizadeh/qeep/component/initializers"
	"github.com/sahandsafizadeh/qeep/tensor"
	vrt "github.com/sahandsafizadeh/qeep/zzvrt"
)

/* C18 — initializers and random constructors honour shape, support and scale.

   Symbolic side: gonum's samplers are contract stubs (a fresh variable per call, tagged with the
   parameters it was requested with).  Decided: shape, tracking, every element is a distinct fresh
   draw (no stream reuse across positions or calls), every draw was requested with exactly the
   specified parameters, elements lie in [lower, upper) under the Uniform contract.
   Native side (replay / validation only): sample moments of a large draw are compared with the
   configured ones at a 6-sigma tolerance; that gonum realises the distributions is its contract. */

type initer interface {
	Init(shape []int) (tensor.Tensor, error)
}

type randSpec struct {
	kind   int // 1 uniform [p0,p1) ; 2 normal(p0, p1) ; 0 constant p0
	p0, p1 float64
}

// buildInit constructs the initializer under test and the specification of its draws.
func buildInit(name string) (initer, randSpec, bool) {
	nilConf := vrt.Param("nilconf") == 1
	switch name {
	case "Full":
		if nilConf {
			return initializers.NewFull(nil), randSpec{0, 0, 0}, true
		}
		v := vrt.Float("v")
		cfg := &initializers.FullConfig{Value: v}
		c := initializers.NewFull(cfg)
		cfg.Value = vrt.Float("v_later") // the caller's struct changes after construction: "configured" means configured then
		return c, randSpec{0, v, 0}, true
	case "Uniform":
		if nilConf {
			c, err := initializers.NewUniform(nil)
			vrt.Assert("nil config accepted", err == nil)
			return c, randSpec{1, -0.05, 0.05}, err == nil
		}
		lo, hi := vrt.Float("lo"), vrt.Float("hi")
		vrt.Assume(lo < hi)
		cfg := &initializers.UniformConfig{Lower: lo, Upper: hi}
		c, err := initializers.NewUniform(cfg)
		vrt.Assert("valid config accepted", err == nil)
		cfg.Lower, cfg.Upper = vrt.Float("lo_later"), vrt.Float("hi_later")
		return c, randSpec{1, lo, hi}, err == nil
	case "Normal":
		if nilConf {
			c, err := initializers.NewNormal(nil)
			vrt.Assert("nil config accepted", err == nil)
			return c, randSpec{2, 0, 0.05}, err == nil
		}
		mu, sd := vrt.Float("mu"), vrt.Float("sd")
		vrt.Assume(sd > 0)
		cfg := &initializers.NormalConfig{Mean: mu, StdDev: sd}
		c, err := initializers.NewNormal(cfg)
		vrt.Assert("valid config accepted", err == nil)
		cfg.Mean, cfg.StdDev = vrt.Float("mu_later"), vrt.Float("sd_later")
		return c, randSpec{2, mu, sd}, err == nil
	}
	fanIn := vrt.Int("fanIn", 1, 64)
	fanOut := vrt.Int("fanOut", 1, 64)
	switch name {
	case "HeUniform":
		cfg := &initializers.HeUniformConfig{FanIn: fanIn}
		c, err := initializers.NewHeUniform(cfg)
		vrt.Assert("valid config accepted", err == nil)
		cfg.FanIn = fanOut
		r := math.Sqrt(6 / float64(fanIn))
		return c, randSpec{1, -r, r}, err == nil
	case "HeNormal":
		cfg := &initializers.HeNormalConfig{FanIn: fanIn}
		c, err := initializers.NewHeNormal(cfg)
		vrt.Assert("valid config accepted", err == nil)
		cfg.FanIn = fanOut
		return c, randSpec{2, 0, math.Sqrt(2 / float64(fanIn))}, err == nil
	case "XavierUniform":
		cfg := &initializers.XavierUniformConfig{FanIn: fanIn, FanOut: fanOut}
		c, err := initializers.NewXavierUniform(cfg)
		vrt.Assert("valid config accepted", err == nil)
		cfg.FanIn, cfg.FanOut = fanOut+1, fanIn+2
		r := math.Sqrt(6 / float64(fanIn+fanOut))
		return c, randSpec{1, -r, r}, err == nil
	case "XavierNormal":
		cfg := &initializers.XavierNormalConfig{FanIn: fanIn, FanOut: fanOut}
		c, err := initializers.NewXavierNormal(cfg)
		vrt.Assert("valid config accepted", err == nil)
		cfg.FanIn, cfg.FanOut = fanOut+1, fanIn+2
		return c, randSpec{2, 0, math.Sqrt(2 / float64(fanIn+fanOut))}, err == nil
	}
	vrt.Assert("harness: unknown initializer", false)
	return nil, randSpec{}, false
}

// checkDraws asserts that the elements f are exactly the draws [first, first+len(f)) made with spec sp.
func checkDraws(label string, f []float64, first int, sp randSpec) {
	if sp.kind == 0 {
		for k := range f {
			vrt.AssertEqF(label+": holds the configured constant", f[k], sp.p0)
		}
		return
	}
	if vrt.DrawCount() < 0 {
		return // natively the sampler is the real one; see the moment check
	}
	vrt.Assert(label+": one fresh draw per element", vrt.DrawCount() == first+len(f))
	if vrt.DrawCount() != first+len(f) {
		return
	}
	for k := range f {
		vrt.Assert(label+": element k is the k-th fresh draw", vrt.SameTerm(f[k], vrt.DrawValue(first+k)))
		vrt.Assert(label+": distribution family", vrt.DrawKind(first+k) == sp.kind)
		vrt.AssertEqF(label+": first distribution parameter", vrt.DrawParam(first+k, 0), sp.p0)
		vrt.AssertEqF(label+": second distribution parameter", vrt.DrawParam(first+k, 1), sp.p1)
		if sp.kind == 1 {
			vrt.Assert(label+": element lies in [lower, upper)", vrt.And(f[k] >= sp.p0, f[k] < sp.p1))
		}
	}
}

// momentCheck (native only): sample moments of n draws against the configured ones.
func momentCheck(label string, f []float64, sp randSpec) {
	n := float64(len(f))
	s, q := 0., 0.
	lo, hi := f[0], f[0]
	for _, v := range f {
		s += v
		if v < lo {
			lo = v
		}
		if v > hi {
			hi = v
		}
	}
	mean := s / n
	for _, v := range f {
		q += (v - mean) * (v - mean)
	}
	sd := math.Sqrt(q / (n - 1))
	var mu, sigma float64
	if sp.kind == 1 {
		mu, sigma = (sp.p0+sp.p1)/2, (sp.p1-sp.p0)/math.Sqrt(12)
		vrt.Assert(label+": samples lie in [lower, upper)", lo >= sp.p0 && hi < sp.p1)
		w := sp.p1 - sp.p0
		vrt.Assert(label+": samples fill the support", lo < sp.p0+0.01*w && hi > sp.p1-0.01*w)
	} else {
		mu, sigma = sp.p0, sp.p1
	}
	if sp.kind == 2 {
		far := 0.
		for _, v := range f {
			far = math.Max(far, math.Abs(v-mu))
		}
		vrt.Assert(label+": no sample further than 8 sigma from the mean", far <= 8*sigma)
	}
	vrt.Assert(label+": sample mean converges to the configured mean", math.Abs(mean-mu) <= 6*sigma/math.Sqrt(n))
	vrt.Assert(label+": sample deviation converges to the configured one", math.Abs(sd-sigma) <= 6*sigma/math.Sqrt(n))
	// positions are independent: lag-1 autocorrelation vanishes
	c := 0.
	for k := 1; k < len(f); k++ {
		c += (f[k] - mean) * (f[k-1] - mean)
	}
	vrt.Assert(label+": neighbouring positions are uncorrelated", math.Abs(c/q) <= 6/math.Sqrt(n))
}

func H_C18_init() {
	name := vrt.SParam("init")
	in, sp, ok := buildInit(name)
	if !ok || in == nil {
		return
	}
	r := vrt.Param("rank")
	dims := symDims("d", r, vrt.Param("maxdim"))
	concDims(dims)
	shape := append([]int{}, dims...)
	x, err := in.Init(shape)
	vrt.Assert("valid shape accepted", err == nil)
	if err != nil || x == nil {
		return
	}
	vrt.Assert("result has exactly the requested shape", sameDims(vrt.Dims(x), dims))
	vrt.Assert("result is tracked", vrt.Tracked(x))
	f := vrt.Flat(x)
	vrt.Assert("element count", len(f) == numel(dims))
	checkDraws("first call", f, 0, sp)
	// a second call, with its own shape, draws afresh
	dims2 := symDims("e", vrt.Concretize(vrt.Int("rank2", 0, r)), vrt.Param("maxdim"))
	concDims(dims2)
	y, err := in.Init(append([]int{}, dims2...))
	vrt.Assert("second call accepted", err == nil)
	if err != nil || y == nil {
		return
	}
	vrt.Assert("second result has exactly its requested shape", sameDims(vrt.Dims(y), dims2))
	g := vrt.Flat(y)
	vrt.Assert("second element count", len(g) == numel(dims2))
	checkDraws("second call", g, len(f), sp)
	vrt.Assert("second call returns a new tensor", x != y)
	// constructing further initializers must not disturb the stream the existing ones draw from
	other, _, _ := buildInit(name)
	_ = other
	vrt.Assert("the library never re-seeds the global random source (draws stay fresh in any call order)", vrt.Reseeds() == 0)
	if !vrt.Symbolic() && sp.kind != 0 {
		a1, e1 := in.Init([]int{16})
		buildInit(name) // another object of the same kind comes to life
		a2, e2 := in.Init([]int{16})
		if e1 == nil && e2 == nil && a1 != nil && a2 != nil {
			f1, f2 := vrt.Flat(a1), vrt.Flat(a2)
			same := 0
			for k := range f1 {
				if f1[k] == f2[k] {
					same++
				}
			}
			vrt.Assert("draws made after another initializer was constructed are fresh, not a replay", same < len(f1))
		}
	}
	if !vrt.Symbolic() && sp.kind != 0 {
		// draws are fresh on every call, whatever was drawn before: precede the large draw by odd-sized
		// draws from far-away distributions of both families
		w := math.Abs(sp.p1-sp.p0) + math.Abs(sp.p1) + 1
		tensor.RandN([]int{3}, sp.p0+1000*w, w, nil)
		tensor.RandU([]int{3}, sp.p1+1000*w, sp.p1+1001*w, nil)
		big, err := in.Init([]int{200, 200})
		if err == nil && big != nil {
			momentCheck(name, vrt.Flat(big), sp)
		}
	}
	vrt.Reach("done")
}

// H_C18_rand: the random constructors of the tensor package.
func H_C18_rand() {
	r := vrt.Param("rank")
	dims := symDims("d", r, vrt.Param("maxdim"))
	concDims(dims)
	tracked := vrt.Bool("tracked")
	var x T
	var err error
	var sp randSpec
	if vrt.SParam("init") == "RandU" {
		lo, hi := vrt.Float("lo"), vrt.Float("hi")
		vrt.Assume(lo < hi)
		sp = randSpec{1, lo, hi}
		x, err = tensor.RandU(dims, lo, hi, conf(tracked))
	} else {
		mu, sd := vrt.Float("mu"), vrt.Float("sd")
		vrt.Assume(sd > 0)
		sp = randSpec{2, mu, sd}
		x, err = tensor.RandN(dims, mu, sd, conf(tracked))
	}
	vrt.Assert("valid arguments accepted", err == nil)
	if err != nil || x == nil {
		return
	}
	vrt.Assert("result has exactly the requested shape", sameDims(vrt.Dims(x), dims))
	vrt.Assert("tracking as configured", vrt.Tracked(x) == tracked)
	f := vrt.Flat(x)
	vrt.Assert("element count", len(f) == numel(dims))
	checkDraws("call", f, 0, sp)
	if !vrt.Symbolic() {
		w := math.Abs(sp.p1-sp.p0) + math.Abs(sp.p1) + 1
		tensor.RandN([]int{3}, sp.p0+1000*w, w, nil)
		tensor.RandU([]int{3}, sp.p1+1000*w, sp.p1+1001*w, nil)
		var big T
		if sp.kind == 1 {
			big, err = tensor.RandU([]int{200, 200}, sp.p0, sp.p1, nil)
		} else {
			big, err = tensor.RandN([]int{200, 200}, sp.p0, sp.p1, nil)
		}
		if err == nil && big != nil {
			momentCheck(vrt.SParam("init"), vrt.Flat(big), sp)
		}
	}
	vrt.Reach("done")
}
