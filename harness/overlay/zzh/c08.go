package zzh

import (
	"github.com/sahandsafizadeh/qeep/tensor"
	vrt "github.com/sahandsafizadeh/qeep/zzvrt"
)

/* C08 — gradient tracking propagates, isolates and retires exactly as specified. */

// operandInState builds a tensor of the given shape in one of the four tracking states:
// 0 clean untracked, 1 tracked leaf, 2 spent tracked (was back-propagated), 3 computed from a spent tensor.
func operandInState(name string, dims []int, state int) (T, []float64) {
	switch state {
	case 0:
		return mk(name, dims, false)
	case 1:
		return mk(name, dims, true)
	case 2:
		x, e := mk(name, dims, true)
		if tensor.BackPropagate(x) != nil {
			vrt.Assume(false)
		}
		return x, e
	}
	x, e := mk(name, dims, true)
	if tensor.BackPropagate(x) != nil {
		vrt.Assume(false)
	}
	return x.Scale(1), e
}

var c08Ops = []string{
	"Scale", "Pow", "Exp", "Log", "Sin", "Cos", "Tan", "Sinh", "Cosh", "Tanh",
	"Transpose", "Reshape", "UnSqueeze", "Squeeze", "Flatten", "Broadcast", "Slice",
	"ReshapeSame", "FlattenLast", "BroadcastSame", "SliceWhole", "PatchWhole", "PatchFull",
	"VarAlongOne", "StdAlongOne", "MaxAlongOne", "SumAlongOne",
	"SumAlong", "MaxAlong", "MinAlong", "AvgAlong", "VarAlong", "StdAlong", "MeanAlong",
	"Add", "Sub", "Mul", "Div", "ElMax", "ElMin", "Dot", "MatMul", "Patch", "Concat2", "Concat3",
	"Eq", "Ne", "Gt", "Ge", "Lt", "Le",
}

// opShape is the operand shape of the single-step harnesses: [2,2], or the rank-3 shape [2,1,2]
// (a size-1 dimension in the middle) when the work item says so.
// opShapeOf is the shape of operand i of op: opShape() unless the work item asks for an operand PAIR of
// different ranks ("pair" = 1: higher-rank non-square left operand; 2: the same pair swapped), which
// exists for the broadcasting arithmetic and for MatMul.
func opShapeOf(op string, i int) []int {
	pair := vrt.ParamOr("pair", 0)
	if pair == 0 {
		return opShape()
	}
	hi, lo := []int{2, 3, 2}, []int{3, 1}
	if op == "MatMul" {
		lo = []int{2, 1}
		if pair == 2 {
			hi, lo = []int{2, 2, 3}, []int{1, 2}
		}
	}
	if (i == 0) == (pair == 1) {
		return hi
	}
	return lo
}

func opShape() []int {
	if vrt.Param("shape3") == 1 {
		return []int{2, 1, 2}
	}
	return []int{2, 2}
}

// scalarAccessors calls every method that returns a plain value (no tensor): full reductions, NElems,
// Shape, At, Equals, Gradient, GradContext.  Used under a write footprint.
func scalarAccessors(x T) {
	_ = x.NElems()
	_ = x.Shape()
	_, _, _, _, _, _, _ = x.Sum(), x.Max(), x.Min(), x.Avg(), x.Var(), x.Std(), x.Mean()
	idx := make([]int, len(vrt.Dims(x)))
	_, _ = x.At(idx...)
	_, _ = x.Equals(x)
	_ = x.Gradient()
	_ = x.GradContext()
}

func c08Arity(op string) int {
	switch op {
	case "Add", "Sub", "Mul", "Div", "ElMax", "ElMin", "Dot", "MatMul", "Patch", "PatchFull", "Concat2", "Eq", "Ne", "Gt", "Ge", "Lt", "Le":
		return 2
	case "Concat3":
		return 3
	}
	return 1
}

func c08IsCmp(op string) bool {
	switch op {
	case "Eq", "Ne", "Gt", "Ge", "Lt", "Le":
		return true
	}
	return false
}

func c08Apply(op string, xs []T) (T, error) {
	x := xs[0]
	switch op {
	case "Scale", "Pow", "Exp", "Log", "Sin", "Cos", "Tan", "Sinh", "Cosh", "Tanh":
		return applyUnary(op, x, 2), nil
	case "Transpose":
		return x.Transpose()
	case "Reshape":
		return x.Reshape([]int{4})
	case "UnSqueeze":
		return x.UnSqueeze(1)
	case "Squeeze":
		u, err := x.UnSqueeze(0)
		if err != nil {
			return nil, err
		}
		return u.Squeeze(0)
	case "Flatten":
		return x.Flatten(0)
	case "ReshapeSame": // identity-like calls: the result must still be a new value
		return x.Reshape(x.Shape())
	case "FlattenLast":
		return x.Flatten(1)
	case "BroadcastSame":
		return x.Broadcast(x.Shape())
	case "SliceWhole":
		return x.Slice(nil)
	case "PatchWhole":
		return x.Patch(nil, x)
	case "PatchFull": // the source covers the whole target
		return x.Patch(nil, xs[1])
	case "Broadcast":
		return x.Broadcast([]int{2, 2, 2})
	case "Slice":
		return x.Slice([]tensor.Range{{From: 0, To: 1}})
	case "VarAlongOne", "StdAlongOne", "MaxAlongOne", "SumAlongOne": // reduction over a dimension of size 1
		u, err := x.UnSqueeze(2)
		if err != nil {
			return nil, err
		}
		return applyAlong(op[:len(op)-8], u, 2)
	case "SumAlong", "MaxAlong", "MinAlong", "AvgAlong", "VarAlong", "StdAlong", "MeanAlong":
		return applyAlong(op[:len(op)-5], x, 1)
	case "Patch":
		return x.Patch([]tensor.Range{{From: 1, To: 2}}, mustSliceKeep(xs[1]))
	case "Concat2":
		return tensor.Concat([]T{xs[0], xs[1]}, 0)
	case "Concat3":
		return tensor.Concat([]T{xs[0], xs[1], xs[2]}, 1)
	}
	return applyBinary(op, xs[0], xs[1])
}

// mustSliceKeep returns a [1,2] block of u that keeps u's tracking state (Slice propagates it).
func mustSliceKeep(u T) T {
	p, err := u.Slice([]tensor.Range{{From: 0, To: 1}})
	if err != nil {
		vrt.Assume(false)
	}
	return p
}

// H_C08_step: one operation on operands in solver-chosen tracking states.
func H_C08_step() {
	op := vrt.SParam("op")
	n := c08Arity(op)
	xs := make([]T, n)
	clean := make([]T, n)
	anyTracked, anySpent := false, false
	for i := 0; i < n; i++ {
		st := vrt.Concretize(vrt.Int(vrt.Nm("state", i), 0, 3))
		var e []float64
		dims := opShapeOf(op, i)
		xs[i], e = operandInState(vrt.Nm("x", i), dims, st)
		clean[i] = fromFlat(e, dims, false)
		if st == 1 || st == 2 {
			anyTracked = true
		}
		if st == 2 || st == 3 {
			anySpent = true
		}
	}
	preT, preD, preG, preE := make([]bool, n), make([]bool, n), make([]bool, n), make([]int, n)
	for i := 0; i < n; i++ {
		preT[i], preD[i], preG[i], preE[i] = vrt.Tracked(xs[i]), vrt.Dirty(xs[i]), xs[i].Gradient() != nil, vrt.NumEdges(xs[i])
	}
	y, err := c08Apply(op, xs)
	y0, err0 := c08Apply(op, clean)
	for i := 0; i < n; i++ {
		vrt.Assert("a forward op leaves the tracking state of its operands as it was (tracked, spent, gradient, edges)",
			vrt.Tracked(xs[i]) == preT[i] && vrt.Dirty(xs[i]) == preD[i] && (xs[i].Gradient() != nil) == preG[i] && vrt.NumEdges(xs[i]) == preE[i])
	}
	vrt.Assert("tracking does not change acceptance", (err == nil) == (err0 == nil))
	if err != nil || err0 != nil || y == nil || y0 == nil {
		return
	}
	// tracking never changes forward values
	checkTensor("forward values do not depend on tracking", y, vrt.Dims(y0), vrt.Flat(y0))
	vrt.Assert("a fresh result has no gradient", y.Gradient() == nil)
	if c08IsCmp(op) {
		vrt.Assert("comparison results are untracked", !vrt.Tracked(y))
		vrt.Assert("comparison results are not spent", !vrt.Dirty(y))
	} else {
		vrt.Assert("tracked exactly when some operand is tracked and none is spent", vrt.Tracked(y) == (anyTracked && !anySpent))
		vrt.Assert("computed-from-spent exactly when some operand is spent", vrt.Dirty(y) == anySpent)
	}
	// operands keep their state
	for i := 0; i < n; i++ {
		vrt.Assert("operand tracking unchanged by a forward op", !vrt.Tracked(clean[i]) && !vrt.Dirty(clean[i]))
	}
	// back-propagating from the result reaches exactly the tracked tensors it was computed from
	if !c08IsCmp(op) {
		tracked := anyTracked && !anySpent
		had := make([]bool, n)
		wasDirty := make([]bool, n)
		for i := 0; i < n; i++ {
			had[i] = xs[i].Gradient() != nil
			wasDirty[i] = vrt.Dirty(xs[i])
		}
		if !backprop(op, y) {
			return
		}
		vrt.Assert("the root has a gradient exactly when it is tracked", (y.Gradient() != nil) == tracked)
		vrt.Assert("the root is spent exactly when it was tracked", vrt.Dirty(y) == (tracked || anySpent))
		for i := 0; i < n; i++ {
			dup := false
			for j := 0; j < i; j++ {
				dup = dup || xs[j] == xs[i]
			}
			if dup {
				continue
			}
			if tracked && vrt.Tracked(xs[i]) {
				vrt.Assert("every tracked operand of a tracked root receives a gradient and is spent", xs[i].Gradient() != nil && vrt.Dirty(xs[i]))
				if g := xs[i].Gradient(); g != nil {
					vrt.Assert("gradient tensors are untracked and carry no graph", !vrt.Tracked(g) && vrt.NumEdges(g) == 0 && g.Gradient() == nil)
				}
			} else {
				vrt.Assert("nothing else is touched by the back-propagation", (xs[i].Gradient() != nil) == had[i] && vrt.Dirty(xs[i]) == wasDirty[i])
			}
		}
	}
	vrt.Reach("done")
}

/* ----- bounded histories against a reference state machine ----- */

type c08Ref struct {
	tracked, dirty, grad bool
	parents              []int
}

// c08Reach marks the tensors a back-propagation from root walks into (root included).
func c08Reach(st []c08Ref, root int) []bool {
	seen := make([]bool, len(st))
	var walk func(i int)
	walk = func(i int) {
		if seen[i] || !st[i].tracked {
			return
		}
		seen[i] = true
		for _, p := range st[i].parents {
			walk(p)
		}
	}
	walk(root)
	return seen
}

// c08DependsOn: is j computed (transitively, through recorded edges) from i?
func c08DependsOn(st []c08Ref, j, i int) bool {
	for _, p := range st[j].parents {
		if p == i || c08DependsOn(st, p, i) {
			return true
		}
	}
	return false
}

func c08Result(st []c08Ref, ops []int, cmp bool) c08Ref {
	if cmp {
		return c08Ref{}
	}
	anyT, anyD := false, false
	for _, o := range ops {
		anyT = anyT || st[o].tracked
		anyD = anyD || st[o].dirty
	}
	if anyD {
		return c08Ref{dirty: true}
	}
	if !anyT {
		return c08Ref{}
	}
	return c08Ref{tracked: true, parents: append([]int{}, ops...)}
}

func H_C08_hist() {
	K := vrt.Param("steps")
	ts := []T{}
	st := []c08Ref{}
	newLeaf := func(k int) {
		tr := vrt.Bool(vrt.Nm("tr", k))
		x, _ := mk(vrt.Nm("x", k), []int{2}, tr)
		ts = append(ts, x)
		st = append(st, c08Ref{tracked: tr})
	}
	newLeaf(0)
	for s := 1; s <= K; s++ {
		n := len(ts)
		kind := vrt.Concretize(vrt.Int(vrt.Nm("kind", s), 0, 6))
		i := 0
		if kind != 0 {
			i = vrt.Concretize(vrt.Int(vrt.Nm("i", s), 0, n-1))
		}
		j := i
		if kind == 2 || kind == 3 || kind == 4 {
			j = vrt.Concretize(vrt.Int(vrt.Nm("j", s), 0, n-1))
		}
		switch kind {
		case 0:
			newLeaf(s)
		case 1:
			ts = append(ts, ts[i].Scale(2))
			st = append(st, c08Result(st, []int{i}, false))
		case 2:
			y, err := ts[i].Add(ts[j])
			if err != nil {
				vrt.Assert("Add accepted", false)
				return
			}
			ts = append(ts, y)
			st = append(st, c08Result(st, []int{i, j}, false))
		case 3:
			y, err := ts[i].Gt(ts[j])
			if err != nil {
				vrt.Assert("Gt accepted", false)
				return
			}
			ts = append(ts, y)
			st = append(st, c08Result(st, []int{i, j}, true))
		case 4:
			c, err := tensor.Concat([]T{ts[i], ts[j]}, 0)
			if err != nil {
				vrt.Assert("Concat accepted", false)
				return
			}
			y, err := c.Slice([]tensor.Range{{From: 1, To: 3}})
			if err != nil {
				vrt.Assert("Slice accepted", false)
				return
			}
			ts = append(ts, y)
			st = append(st, c08Result(st, []int{i, j}, false))
		case 5:
			// precondition (a): no non-leaf tensor on the walk was passed through before
			reach := c08Reach(st, i)
			for q := range reach {
				if reach[q] && len(st[q].parents) > 0 && st[q].dirty {
					vrt.Assume(false)
				}
			}
			vrt.FootprintBegin()
			err := tensor.BackPropagate(ts[i])
			writes := vrt.FootprintEnd("GradContext.gradient,GradContext.bpdirty")
			vrt.Assert("BackPropagate succeeds", err == nil)
			vrt.Assert("BackPropagate writes only gradients and spent flags", writes == 0)
			if !st[i].tracked {
				vrt.FootprintBegin()
				_ = tensor.BackPropagate(ts[i])
				vrt.Assert("back-propagation from an untracked root changes nothing", vrt.FootprintEnd("") == 0)
			}
			for q := range reach {
				if reach[q] {
					st[q].dirty = true
					st[q].grad = true
				}
			}
		case 6:
			b := vrt.Bool(vrt.Nm("rb", s))
			// precondition (b): no tracked, not yet back-propagated result computed from ts[i]
			for q := range st {
				if st[q].tracked && !st[q].dirty && c08DependsOn(st, q, i) {
					vrt.Assume(false)
				}
			}
			ts[i].ResetGradContext(b)
			st[i] = c08Ref{tracked: b}
		}
		for q := range ts {
			vrt.Assert("gradient present exactly on the tensors a tracked back-propagation reached", (ts[q].Gradient() != nil) == st[q].grad)
			vrt.Assert("tracked flag follows the state machine", vrt.Tracked(ts[q]) == st[q].tracked)
			vrt.Assert("spent flag follows the state machine", vrt.Dirty(ts[q]) == st[q].dirty)
		}
	}
	vrt.Reach("done")
}
