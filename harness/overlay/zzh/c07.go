package zzh

import (
	vrt "github.com/sahandsafizadeh/qeep/zzvrt"
)

/* C07 — the gradient of a broadcast operand is the sum over its expanded copies.

   Known finding bcast_backward_mean: gradtrack.Broadcast reduces with AvgAlong, so the
   implementation delivers the MEAN over the copies.  With vrt.Known("bcast_backward_mean") the
   reference below computes exactly that deviation (sum / expansion factor) and nothing else. */

// refBcastAdjoint folds an adjoint of the broadcast shape back onto an operand of shape dims.
func refBcastAdjoint(g []float64, dims, shape []int) []float64 {
	out := zeros(numel(dims))
	idx := make([]int, len(shape))
	for k := range g {
		unravel(k, shape, idx)
		out[bsrc(idx, dims)] += g[k]
	}
	if vrt.Known("bcast_backward_mean") {
		factor := float64(numel(shape) / numel(dims))
		for k := range out {
			out[k] = out[k] / factor
		}
	}
	return out
}

func H_C07_explicit() {
	r := vrt.Param("rank")
	maxd := vrt.Param("maxdim")
	dims := symDims("d", r, maxd)
	shape := drawBroadcastTarget(dims, vrt.Param("maxrank2"), maxd)
	concDims(dims)
	concDims(shape)
	x, _ := mk("x", dims, true)
	y, err := x.Broadcast(shape)
	vrt.Assert("valid broadcast accepted", err == nil)
	if err != nil {
		return
	}
	ge, ok := backThrough(y)
	if !ok {
		return
	}
	checkGrad("Broadcast", x, true, dims, refBcastAdjoint(ge, dims, shape))
	vrt.Reach("done")
}

func H_C07_implicit() {
	op := vrt.SParam("op")
	da, db := drawCompat(vrt.Param("ra"), vrt.Param("rb"), vrt.Param("maxdim"))
	ta, tb := vrt.Bool("ta"), vrt.Bool("tb")
	vrt.Assume(vrt.Or(ta, tb))
	a, ae := mk("x", da, ta)
	b, be := mk("y", db, tb)
	maybeUsedTogether(a, b)
	if op == "Div" {
		for k := range be {
			vrt.Assume(be[k] != 0)
		}
	}
	y, err := applyBinary(op, a, b)
	vrt.Assert("compatible shapes accepted", err == nil)
	if err != nil {
		return
	}
	ge, ok := backThrough(y)
	if !ok {
		return
	}
	S := bshape(da, db)
	n := numel(S)
	ga, gb := zeros(n), zeros(n)
	idx := make([]int, len(S))
	for k := 0; k < n; k++ {
		unravel(k, S, idx)
		g, x, z := ge[k], ae[bsrc(idx, da)], be[bsrc(idx, db)]
		switch op {
		case "Add":
			ga[k], gb[k] = g, g
		case "Sub":
			ga[k], gb[k] = g, -g
		case "Mul":
			ga[k], gb[k] = g*z, g*x
		case "Div":
			ga[k], gb[k] = g/z, -g*x/(z*z)
		}
	}
	checkGrad(op+" d/da", a, ta, da, refBcastAdjoint(ga, da, S))
	checkGrad(op+" d/db", b, tb, db, refBcastAdjoint(gb, db, S))
	vrt.Reach("done")
}

func H_C07_dot() {
	ra, rb := vrt.Param("ra"), vrt.Param("rb")
	maxd := vrt.Param("maxdim")
	la, lb := drawCompat(ra-1, rb-1, maxd)
	n := vrt.Concretize(vrt.Int("n", 1, maxd))
	da := append(append([]int{}, la...), n)
	db := append(append([]int{}, lb...), n)
	ta, tb := vrt.Bool("ta"), vrt.Bool("tb")
	vrt.Assume(vrt.Or(ta, tb))
	a, ae := mk("x", da, ta)
	b, be := mk("y", db, tb)
	maybeUsedTogether(a, b)
	y, err := a.Dot(b)
	vrt.Assert("valid dot accepted", err == nil)
	if err != nil {
		return
	}
	ge, ok := backThrough(y)
	if !ok {
		return
	}
	S := bshape(da, db)
	ns := numel(S)
	ga, gb := zeros(ns), zeros(ns)
	idx := make([]int, len(S))
	for k := 0; k < ns; k++ {
		unravel(k, S, idx)
		g := ge[k/n]
		ga[k] = g * be[bsrc(idx, db)]
		gb[k] = g * ae[bsrc(idx, da)]
	}
	checkGrad("Dot d/da", a, ta, da, refBcastAdjoint(ga, da, S))
	checkGrad("Dot d/db", b, tb, db, refBcastAdjoint(gb, db, S))
	vrt.Reach("done")
}

func H_C07_matmul() {
	da, db := drawMatMulShapes(vrt.Param("ra"), vrt.Param("rb"), vrt.Param("maxdim"))
	ta, tb := vrt.Bool("ta"), vrt.Bool("tb")
	vrt.Assume(vrt.Or(ta, tb))
	a, ae := mk("x", da, ta)
	b, be := mk("y", db, tb)
	maybeUsedTogether(a, b)
	y, err := a.MatMul(b)
	vrt.Assert("valid matmul accepted", err == nil)
	if err != nil {
		return
	}
	ge, ok := backThrough(y)
	if !ok {
		return
	}
	ra, rb := len(da), len(db)
	m, n, q := da[ra-2], da[ra-1], db[rb-1]
	ba, bb := da[:ra-2], db[:rb-2]
	B := bshape(ba, bb)
	nb := numel(B)
	// adjoints with respect to the batch-broadcast operands
	Sa := append(append([]int{}, B...), m, n)
	Sb := append(append([]int{}, B...), n, q)
	ga, gb := zeros(nb*m*n), zeros(nb*n*q)
	bidx := make([]int, len(B))
	for t := 0; t < nb; t++ {
		unravel(t, B, bidx)
		oa := bsrc(bidx, ba) * m * n
		ob := bsrc(bidx, bb) * n * q
		for i := 0; i < m; i++ {
			for p := 0; p < n; p++ {
				s := 0.
				for j := 0; j < q; j++ {
					s += ge[(t*m+i)*q+j] * be[ob+p*q+j]
				}
				ga[(t*m+i)*n+p] = s
			}
		}
		for p := 0; p < n; p++ {
			for j := 0; j < q; j++ {
				s := 0.
				for i := 0; i < m; i++ {
					s += ae[oa+i*n+p] * ge[(t*m+i)*q+j]
				}
				gb[(t*n+p)*q+j] = s
			}
		}
	}
	checkGrad("MatMul d/da", a, ta, da, refBcastAdjoint(ga, da, Sa))
	checkGrad("MatMul d/db", b, tb, db, refBcastAdjoint(gb, db, Sb))
	vrt.Reach("done")
}
