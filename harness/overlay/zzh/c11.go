package zzh

import (
	"math"

	"github.com/sahandsafizadeh/qeep/component/initializers"
	"github.com/sahandsafizadeh/qeep/component/layers"
	"github.com/sahandsafizadeh/qeep/component/layers/activations"
	"github.com/sahandsafizadeh/qeep/component/optimizers"
	vrt "github.com/sahandsafizadeh/qeep/zzvrt"
)

/* C11 — a training loop follows the gradient-descent trajectory of its loss.

   One inductive step from ARBITRARY weights: forward, loss, back-propagation, Update of both
   parameters, ResetGradContext(true); each new weight must equal w - lr*dLoss/dw with the derivative
   taken from closed-form reference formulas at the current weights, and the post-state must satisfy
   the same invariant (tracked, not spent, no gradient, no edges).  Then the element values of the REAL
   post-update tensors are abstracted to fresh variables and the step is repeated. */

type c11Model struct {
	act, loss string
	B, F, O   int
	m         float64 // LeakyRelu slope
}

// forward runs FC -> activation (-> squeeze).  The FC output's element values are abstracted to fresh
// variables z<step>_k (the object and its graph edges stay the real ones): no backward rule of FC reads
// them, so the step is checked for arbitrary pre-activations, which keeps exp/log terms un-nested.
type c11Fwd struct {
	z, a, p T // FC output, activation output, prediction handed to the loss
	ze, ae  []float64
}

func (md c11Model) forward(fc *layers.FC, x T, step int) (c11Fwd, bool) {
	z, err := fc.Forward(x)
	if err != nil || z == nil {
		vrt.Assert("FC forward accepted", false)
		return c11Fwd{}, false
	}
	if !sameDims(vrt.Dims(z), []int{md.B, md.O}) {
		vrt.Assert("FC output has shape [batch, outputs]", false)
		return c11Fwd{}, false
	}
	vrt.Abstract(z, vrt.Nm("z", step))
	ze := vrt.Flat(z)
	var a T
	switch md.act {
	case "none":
		a = z
	case "Relu":
		a, err = activations.NewRelu().Forward(z)
	case "LeakyRelu":
		a, err = activations.NewLeakyRelu(&activations.LeakyReluConfig{M: md.m}).Forward(z)
	case "Sigmoid":
		a, err = activations.NewSigmoid().Forward(z)
	case "Tanh":
		a, err = activations.NewTanh().Forward(z)
	case "Softmax":
		sm, e := activations.NewSoftmax(&activations.SoftmaxConfig{Dim: 1})
		if e != nil {
			vrt.Assert("Softmax config accepted", false)
			return c11Fwd{}, false
		}
		a, err = sm.Forward(z)
	}
	if err != nil || a == nil {
		vrt.Assert("activation forward accepted", false)
		return c11Fwd{}, false
	}
	if !sameDims(vrt.Dims(a), []int{md.B, md.O}) {
		vrt.Assert("activation keeps the shape", false)
		return c11Fwd{}, false
	}
	// The activation output is abstracted as well where no backward rule reads it (every activation
	// except Relu, whose ElMax rule compares the output with its operands): the loss stage is then
	// checked for arbitrary predictions and the activation stage for arbitrary upstream gradients.
	if md.act != "Relu" && md.act != "none" {
		vrt.Abstract(a, vrt.Nm("a", step))
	}
	ae := vrt.Flat(a)
	p := a
	if md.loss != "CE" {
		p, err = a.Squeeze(1) // O = 1: [B,1] -> [B]
		if err != nil {
			vrt.Assert("squeeze accepted", false)
			return c11Fwd{}, false
		}
	}
	return c11Fwd{z: z, a: a, p: p, ze: ze, ae: ae}, true
}

// refStep returns the reference parameter gradients of the mini-batch loss given the pre-activations z.
func (md c11Model) refStep(z, ap, xe, te []float64) (g, dz, gw, gb []float64) {
	B, F, O := md.B, md.F, md.O
	rows := make([]float64, B)
	for b := 0; b < B; b++ {
		for d := 0; d < F; d++ {
			rows[b] += xe[b*F+d]
		}
	}
	a := make([]float64, B*O)
	da := make([]float64, B*O) // d a / d z (element-wise activations)
	for b := 0; b < B; b++ {
		for o := 0; o < O; o++ {
			k := b*O + o
			switch md.act {
			case "none":
				a[k], da[k] = z[k], 1
			case "Relu":
				zeroOrFar(z[k])
				vrt.Assume(z[k] != 0) // differentiable points only
				a[k], da[k] = vrt.IteF(z[k] > 0, z[k], 0), vrt.IteF(z[k] > 0, 1, 0)
			case "LeakyRelu":
				zeroOrFar(z[k])
				vrt.Assume(z[k] != 0)
				a[k], da[k] = vrt.IteF(z[k] > 0, z[k], md.m*z[k]), vrt.IteF(z[k] > 0, 1, md.m)
			case "Sigmoid":
				s := 1 / (1 + math.Exp(-z[k]))
				a[k], da[k] = s, s*(1-s)
			case "Tanh":
				t := math.Tanh(z[k])
				a[k], da[k] = t, 1-t*t
			}
		}
	}
	if md.act == "Softmax" {
		for b := 0; b < B; b++ {
			s := 0.
			for o := 0; o < O; o++ {
				s += math.Exp(z[b*O+o])
			}
			for o := 0; o < O; o++ {
				a[b*O+o] = math.Exp(z[b*O+o]) / s
			}
		}
	}
	if md.act != "Relu" && md.act != "none" {
		copy(a, ap) // abstracted predictions: the loss stage sees arbitrary values
	}
	// d loss / d a
	g = make([]float64, B*O)
	for k := range g {
		if md.loss != "MSE" {
			dl, du := a[k]-lossEps, a[k]-(1-lossEps)
			vrt.Assume(vrt.Or(dl > 1e-200, dl < -1e-200))
			vrt.Assume(vrt.Or(du > 1e-200, du < -1e-200))
		}
		g[k] = refLossGrad(md.loss, a[k], te[k], B)
	}
	// d loss / d z
	dz = make([]float64, B*O)
	if md.act == "Softmax" {
		for b := 0; b < B; b++ {
			s := 0.
			for o := 0; o < O; o++ {
				s += math.Exp(z[b*O+o])
			}
			if vrt.Known("bcast_backward_mean") {
				acc := 0.
				for j := 0; j < O; j++ {
					acc += -g[b*O+j] * math.Exp(z[b*O+j]) / (s * s)
				}
				acc = acc / float64(O)
				for o := 0; o < O; o++ {
					dz[b*O+o] = (g[b*O+o]/s + acc) * math.Exp(z[b*O+o])
				}
			} else {
				dot := 0.
				for j := 0; j < O; j++ {
					dot += math.Exp(z[b*O+j]) / s * g[b*O+j]
				}
				for o := 0; o < O; o++ {
					dz[b*O+o] = math.Exp(z[b*O+o]) / s * (g[b*O+o] - dot)
				}
			}
		}
	} else {
		for k := range dz {
			dz[k] = g[k] * da[k]
		}
	}
	gw, gb = zeros(O), zeros(O)
	for b := 0; b < B; b++ {
		for o := 0; o < O; o++ {
			gw[o] += dz[b*O+o] * rows[b]
			gb[o] += dz[b*O+o]
		}
	}
	if vrt.Known("bcast_backward_mean") {
		for o := 0; o < O; o++ {
			gw[o] = gw[o] / float64(B)
			gb[o] = gb[o] / float64(B)
		}
	}
	return
}

func c11Setup() (md c11Model, fc *layers.FC, x T, xe []float64, y T, te []float64, we, be []float64, ok bool) {
	md = c11Model{act: vrt.SParam("act"), loss: vrt.SParam("loss")}
	md.B = vrt.Concretize(vrt.Int("B", 1, vrt.Param("maxb")))
	md.F = vrt.Concretize(vrt.Int("F", 1, vrt.Param("maxf")))
	md.O = 1
	if md.loss == "CE" {
		md.O = vrt.Concretize(vrt.Int("O", 1, vrt.Param("maxo")))
	}
	if md.act == "LeakyRelu" {
		md.m = vrt.Float("m")
	}
	if vrt.Param("sharedinit") == 1 {
		// one library initializer object serves both parameters (W and B start at the same constant)
		c := vrt.Float("c")
		full := initializers.NewFull(&initializers.FullConfig{Value: c})
		var err error
		fc, err = layers.NewFC(&layers.FCConfig{Inputs: md.F, Outputs: md.O, Initializers: map[string]layers.Initializer{"Weight": full, "Bias": full}})
		if err != nil || fc == nil {
			vrt.Assert("FC with a shared Full initializer accepted", false)
			return
		}
		we, be = make([]float64, md.O), make([]float64, md.O)
		for o := range we {
			we[o], be[o] = c, c
		}
		ok = true
	} else {
		we, be = elems("w", md.O), elems("b", md.O)
		fc, ok = newFC(0, md.F, md.O, we, be)
		if !ok {
			return
		}
	}
	x, xe = mk("x", []int{md.B, md.F}, false)
	tdims := []int{md.B}
	if md.loss == "CE" {
		tdims = []int{md.B, md.O}
	}
	y, te = mk("t", tdims, false)
	for k := range te {
		vrt.Assume(vrt.And(te[k] >= 0, te[k] <= 1))
	}
	return
}

// c11Step runs forward, loss and back-propagation.
func c11Step(md c11Model, fc *layers.FC, x, y T, step int) (c11Fwd, bool) {
	fw, ok := md.forward(fc, x, step)
	if !ok {
		return fw, false
	}
	l, err := computeLoss(md.loss, fw.p, y)
	if err != nil || l == nil {
		vrt.Assert("loss accepted", false)
		return fw, false
	}
	return fw, backprop("training step", l)
}

// stageLemma proves that an intermediate tensor's gradient equals the reference and lets the
// executor print it as the reference afterwards, so the next stage is decided on small terms.
func stageLemma(label string, t T, want []float64) bool {
	g := t.Gradient()
	if g == nil {
		vrt.Assert(label+": intermediate receives a gradient", false)
		return false
	}
	f := vrt.Flat(g)
	if len(f) != len(want) {
		vrt.Assert(label+": gradient element count", false)
		return false
	}
	for k := range f {
		vrt.LemmaEqF(label, f[k], want[k])
	}
	return true
}

func H_C11_train() {
	md, fc, x, xe, y, te, we, be, ok := c11Setup()
	if !ok {
		return
	}
	lr := vrt.Float("lr")
	opt := optimizers.NewSGD(&optimizers.SGDConfig{LearningRate: lr})
	steps := vrt.Param("steps")
	for s := 0; s < steps; s++ {
		fw, ok := c11Step(md, fc, x, y, s)
		if !ok {
			return
		}
		g, dz, gw, gb := md.refStep(fw.ze, fw.ae, xe, te)
		if !stageLemma("dLoss/d(activation output)", fw.a, g) || !stageLemma("dLoss/d(pre-activation)", fw.z, dz) {
			return
		}
		ws := fc.Weights()
		cur := [][]float64{we, be}
		ref := [][]float64{gw, gb}
		for i := 0; i < 2; i++ {
			err := opt.Update(ws[i].Value)
			vrt.Assert("update after back-propagation succeeds", err == nil)
			if err != nil || *ws[i].Value == nil {
				return
			}
			(*ws[i].Value).ResetGradContext(true)
			want := make([]float64, md.O)
			for o := range want {
				want[o] = cur[i][o] - lr*ref[i][o]
			}
			checkTensor("w <- w - lr * dLoss/dw", *ws[i].Value, []int{md.O}, want)
			nw := *ws[i].Value
			vrt.Assert("after the reset the weight is a fresh tracked leaf",
				vrt.And(vrt.Tracked(nw), vrt.And(!vrt.Dirty(nw), vrt.And(nw.Gradient() == nil, vrt.NumEdges(nw) == 0))))
		}
		// generalise: forget the values, keep the real objects and contexts the step produced
		vrt.Abstract(*ws[0].Value, vrt.Nm("w", s+1))
		vrt.Abstract(*ws[1].Value, vrt.Nm("b", s+1))
		we, be = vrt.Flat(*ws[0].Value), vrt.Flat(*ws[1].Value)
	}
	vrt.Reach("done")
}

// H_C11_noreset: omitting ResetGradContext is reported by the next Update and nothing is replaced.
func H_C11_noreset() {
	md, fc, x, _, y, _, _, _, ok := c11Setup()
	if !ok {
		return
	}
	opt := optimizers.NewSGD(&optimizers.SGDConfig{LearningRate: vrt.Float("lr")})
	if _, ok := c11Step(md, fc, x, y, 0); !ok {
		return
	}
	ws := fc.Weights()
	for i := 0; i < 2; i++ {
		if err := opt.Update(ws[i].Value); err != nil {
			vrt.Assert("first update succeeds", false)
			return
		}
	}
	// second step without the reset
	if _, ok := c11Step(md, fc, x, y, 1); !ok {
		return
	}
	for i := 0; i < 2; i++ {
		before := *ws[i].Value
		bf := vrt.Flat(before)
		err := opt.Update(ws[i].Value)
		vrt.Assert("update without a preceding reset is reported as an error", err != nil)
		vrt.Assert("failed update replaces nothing", *ws[i].Value == before)
		checkTensor("failed update leaves the weight unchanged", before, []int{md.O}, bf)
	}
	vrt.Reach("done")
}
