package zzh

import (
	"github.com/sahandsafizadeh/qeep/component/layers"
	"github.com/sahandsafizadeh/qeep/component/layers/activations"
	"github.com/sahandsafizadeh/qeep/tensor"
	vrt "github.com/sahandsafizadeh/qeep/zzvrt"
)

/* C20 — concurrent computations on shared tensors are race-free and deterministic.

   The solver does not enumerate schedules.  What is decided here is the sequential fact the property
   reduces to under the Go memory model (a data race needs two conflicting accesses, one of them a
   write): on every explored path, a goroutine's forward work writes to NO object that existed before
   it started (shared tensors, shared parameters, package-level variables), and a back-propagation over
   a graph that shares only untracked tensors writes to nothing shared.  The same computation run
   twice yields identical terms (no hidden state). */

// H_C20_forward: every op on shared (pre-existing) operands, tracked ones included.
func H_C20_forward() {
	op := vrt.SParam("op")
	n := c08Arity(op)
	xs := make([]T, n)
	for i := range xs {
		xs[i], _ = operandInState(vrt.Nm("x", i), opShapeOf(op, i), vrt.Concretize(vrt.Int(vrt.Nm("state", i), 0, 1)))
	}
	// a second, never-used set of the same operands for the real goroutines of the native replay: a
	// lazily filled cache on an operand is only written by its first use
	zs := make([]T, n)
	for i := range zs {
		zs[i], _ = operandInState(vrt.Nm("x", i), opShapeOf(op, i), vrt.Concretize(vrt.Int(vrt.Nm("state", i), 0, 1)))
	}
	// "goroutine 1"
	if n == 1 {
		vrt.FootprintBegin(xs[0])
	} else if n == 2 {
		vrt.FootprintBegin(xs[0], xs[1])
	} else {
		vrt.FootprintBegin(xs[0], xs[1], xs[2])
	}
	y1, err1 := c08Apply(op, xs)
	w1 := vrt.FootprintEnd("mode=race")
	// "goroutine 2": the same computation on the same shared operands
	if n == 1 {
		vrt.FootprintBegin(xs[0])
	} else if n == 2 {
		vrt.FootprintBegin(xs[0], xs[1])
	} else {
		vrt.FootprintBegin(xs[0], xs[1], xs[2])
	}
	y2, err2 := c08Apply(op, xs)
	w2 := vrt.FootprintEnd("mode=race")
	if err1 != nil || err2 != nil || y1 == nil || y2 == nil {
		vrt.Assert("operation accepted", false)
		return
	}
	vrt.Assert(op+": forward work writes to no shared object", w1 == 0 && w2 == 0)
	vrt.FootprintBegin(xs[0])
	scalarAccessors(xs[0])
	vrt.Assert("value-returning methods (reductions, NElems, Shape, At, Equals, ...) write to no shared object", vrt.FootprintEnd("mode=race") == 0)
	vrt.Assert(op+": the two results are distinct objects", y1 != y2)
	checkTensor(op+": both computations obtain the sequential result", y2, vrt.Dims(y1), vrt.Flat(y1))
	vrt.Assert(op+": tracking of the results agrees", vrt.Tracked(y1) == vrt.Tracked(y2) && vrt.Dirty(y1) == vrt.Dirty(y2))
	// native replay (built with -race): the same work in real goroutines
	vrt.Concurrently(3, func(int) {
		c08Apply(op, zs)
		x := zs[0]
		_, _, _, _ = x.NElems(), x.Shape(), x.Avg(), x.Std()
		_, _ = x.Equals(x)
	})
	vrt.Reach("done")
}

// H_C20_layers: layer / activation / loss evaluation on shared tracked parameters and shared inputs.
func H_C20_layers() {
	B, F, O := 2, 2, 2
	we, be := elems("w", O), elems("b", O)
	fc, ok := newFC(0, F, O, we, be)
	if !ok {
		return
	}
	x, _ := mk("x", []int{B, F}, false)
	t, _ := mk("t", []int{B, O}, false)
	sm, err := activations.NewSoftmax(&activations.SoftmaxConfig{Dim: 1})
	if err != nil {
		vrt.Assume(false)
	}
	ws := fc.Weights()
	run := func() (T, int) {
		vrt.FootprintBegin(*ws[0].Value, *ws[1].Value, x, t)
		z, e1 := fc.Forward(x)
		if e1 != nil {
			vrt.Assume(false)
		}
		a, e2 := sm.Forward(z)
		if e2 != nil {
			vrt.Assume(false)
		}
		l, e3 := computeLoss(vrt.SParam("loss"), a, t)
		if e3 != nil {
			vrt.Assume(false)
		}
		return l, vrt.FootprintEnd("mode=race")
	}
	l1, w1 := run()
	l2, w2 := run()
	vrt.Assert("layer / activation / loss evaluation writes to no shared object", w1 == 0 && w2 == 0)
	lossName := vrt.SParam("loss")
	// fresh layer, activation and tensors for the real goroutines (see H_C20_forward)
	fc2, ok2 := newFC(0, F, O, we, be)
	sm2, err2 := activations.NewSoftmax(&activations.SoftmaxConfig{Dim: 1})
	x2, _ := mk("x", []int{B, F}, false)
	t2, _ := mk("t", []int{B, O}, false)
	if !ok2 || err2 != nil {
		vrt.Assume(false)
	}
	vrt.Concurrently(3, func(int) {
		if z, e := fc2.Forward(x2); e == nil {
			if a, e := sm2.Forward(z); e == nil {
				computeLoss(lossName, a, t2)
			}
		}
	})
	checkTensor("both evaluations obtain the sequential loss", l2, vrt.Dims(l1), vrt.Flat(l1))
	_ = layers.Weight{}
	vrt.Reach("done")
}

// H_C20_backprop: a goroutine builds and back-propagates a graph that shares only untracked tensors.
func H_C20_backprop() {
	shared1, _ := mk("s", []int{2, 2}, false)
	shared2, _ := mk("u", []int{2, 2}, false)
	run := func(tag string) int {
		vrt.FootprintBegin(shared1, shared2)
		w, _ := mk(tag, []int{2, 2}, true) // private parameter
		y, err := w.Mul(shared1)
		if err != nil {
			vrt.Assume(false)
		}
		y, err = y.MatMul(shared2)
		if err != nil {
			vrt.Assume(false)
		}
		y = y.Tanh()
		// ops that hand their operands to the backward edges directly (no implicit Broadcast copy)
		y, err = y.ElMax(shared1)
		if err != nil {
			vrt.Assume(false)
		}
		y, err = tensor.Concat([]T{y, shared2}, 0)
		if err != nil {
			vrt.Assume(false)
		}
		if tensor.BackPropagate(y) != nil {
			vrt.Assert("back-propagation succeeds", false)
		}
		vrt.Assert("private parameter received its gradient", w.Gradient() != nil)
		return vrt.FootprintEnd("mode=race")
	}
	w1 := run("p")
	w2 := run("q")
	vrt.Assert("building and back-propagating a private graph writes to nothing shared", w1 == 0 && w2 == 0)
	priv := make([]T, 3)
	for i := range priv {
		priv[i], _ = mk(vrt.Nm("r", i), []int{2, 2}, true)
	}
	fresh1, _ := mk("s", []int{2, 2}, false)
	fresh2, _ := mk("u", []int{2, 2}, false)
	vrt.Concurrently(3, func(i int) {
		if y, e := priv[i].Mul(fresh1); e == nil {
			if y, e = y.MatMul(fresh2); e == nil {
				if y, e = y.Tanh().ElMax(fresh1); e == nil {
					if y, e = tensor.Concat([]T{y, fresh2}, 0); e == nil {
						tensor.BackPropagate(y)
					}
				}
			}
		}
	})
	vrt.Assert("shared untracked tensors receive nothing", shared1.Gradient() == nil && shared2.Gradient() == nil && !vrt.Dirty(shared1) && !vrt.Dirty(shared2) &&
		fresh1.Gradient() == nil && fresh2.Gradient() == nil && !vrt.Dirty(fresh1) && !vrt.Dirty(fresh2))
	vrt.Reach("done")
}

// H_C20_rand: the random constructors touch no qeep-side shared state.
func H_C20_rand() {
	shared, _ := mk("s", []int{2}, true)
	vrt.FootprintBegin(shared)
	// one element each: a sampler written as a rejection loop multiplies the paths per element
	a, e1 := tensor.RandU([]int{1}, vrt.Float("lo"), vrt.Float("lo")+1, nil)
	b, e2 := tensor.RandN([]int{1}, vrt.Float("mu"), 1, nil)
	w := vrt.FootprintEnd("mode=race")
	vrt.Assert("random constructors accepted", e1 == nil && e2 == nil && a != nil && b != nil)
	vrt.Assert("random constructors write to no pre-existing qeep object", w == 0)
	vrt.Concurrently(3, func(int) {
		tensor.RandU([]int{2, 2}, 0, 1, nil)
		tensor.RandN([]int{2, 2}, 0, 1, nil)
	})
	vrt.Reach("done")
}
