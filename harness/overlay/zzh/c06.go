package zzh

import (
	"github.com/sahandsafizadeh/qeep/tensor"
	vrt "github.com/sahandsafizadeh/qeep/zzvrt"
)

// H_C06_slice: Slice returns the block selected by half-open ranges; omitted / {0,0} = whole dim.
func H_C06_slice() {
	r := vrt.Param("rank")
	dims := symDims("d", r, vrt.Param("maxdim"))
	x, xe := mk("x", dims, false)

	n := vrt.Int("ilen", 0, r+1)
	index := make([]tensor.Range, n)
	valid := n <= r
	from := make([]int, r)
	odims := make([]int, r)
	for i := 0; i < r; i++ {
		from[i] = 0
		odims[i] = dims[i]
	}
	for i := range index {
		f := vrt.Int(vrt.Nm("from", i), -2, 6)
		t := vrt.Int(vrt.Nm("to", i), -2, 6)
		index[i] = tensor.Range{From: f, To: t}
		if i < r {
			whole := vrt.And(f == 0, t == 0)
			expl := vrt.And(vrt.And(0 <= f, f < t), t <= dims[i])
			valid = vrt.And(valid, vrt.Or(whole, expl))
			if !whole {
				from[i] = f
				odims[i] = t - f
			}
		}
	}
	y, err := x.Slice(index)
	if !valid {
		vrt.Assert("invalid index rejected", err != nil)
		vrt.Assert("no result on error", y == nil)
		vrt.Reach("rejected")
		return
	}
	vrt.Assert("valid index accepted", err == nil)
	if err != nil {
		return
	}
	want := make([]float64, numel(odims))
	idx := make([]int, r)
	for k := range want {
		unravel(k, odims, idx)
		for i := range idx {
			idx[i] += from[i]
		}
		want[k] = xe[ravel(idx, dims)]
	}
	checkTensor("slice", y, odims, want)
	vrt.Reach("accepted")
}
