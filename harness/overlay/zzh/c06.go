package zzh

import (
	"math"

	"github.com/sahandsafizadeh/qeep/tensor"
	vrt "github.com/sahandsafizadeh/qeep/zzvrt"
)

/* C06 — indexing, reshaping and construction move elements without changing them.
   Element values are opaque solver reals; every assertion is an identity between the
   result element and the input variable the reference index map selects. */

// drawIndex draws a Slice/Patch index of solver-chosen length 0..r over dims, assumed valid
// for Slice, and returns the completed offsets and block sizes.
func drawIndex(r int, dims []int) (index []tensor.Range, from, size []int, whole []bool) {
	n := vrt.Int("ilen", 0, r)
	index = make([]tensor.Range, n)
	from = make([]int, r)
	size = make([]int, r)
	whole = make([]bool, r)
	for i := 0; i < r; i++ {
		from[i] = 0
		size[i] = dims[i]
		whole[i] = true
	}
	for i := range index {
		f := vrt.Int(vrt.Nm("from", i), -1, 4)
		t := vrt.Int(vrt.Nm("to", i), -1, 4)
		index[i] = tensor.Range{From: f, To: t}
		w := vrt.And(f == 0, t == 0)
		vrt.Assume(vrt.Or(w, vrt.And(vrt.And(0 <= f, f < t), t <= dims[i])))
		if !w {
			from[i] = f
			size[i] = t - f
			whole[i] = false
		}
	}
	return
}

func H_C06_slice() {
	r := vrt.Param("rank")
	dims := symDims("d", r, vrt.Param("maxdim"))
	x, xe := mk("x", dims, false)
	index, from, odims, _ := drawIndex(r, dims)
	y, err := x.Slice(index)
	vrt.Assert("valid index accepted", err == nil)
	if err != nil {
		return
	}
	want := make([]float64, numel(odims))
	idx := make([]int, r)
	for k := range want {
		unravel(k, odims, idx)
		for i := range idx {
			idx[i] += from[i]
		}
		want[k] = xe[ravel(idx, dims)]
	}
	checkTensor("slice", y, odims, want)
	vrt.Reach("accepted")
}

func H_C06_at() {
	r := vrt.Param("rank")
	dims := symDims("d", r, vrt.Param("maxdim"))
	x, xe := mk("x", dims, false)
	idx := make([]int, r)
	for i := range idx {
		idx[i] = vrt.Int(vrt.Nm("i", i), 0, 3)
		vrt.Assume(idx[i] < dims[i])
	}
	v, err := x.At(idx...)
	vrt.Assert("valid index accepted", err == nil)
	if err != nil {
		return
	}
	vrt.AssertEqF("At", v, xe[ravel(idx, dims)])
	vrt.Assert("NElems", x.NElems() == numel(dims))
	vrt.Reach("accepted")
}

func H_C06_patch() {
	r := vrt.Param("rank")
	dims := symDims("d", r, vrt.Param("maxdim"))
	x, xe := mk("x", dims, false)
	// source block: every size 1..dims[i]; index valid for Slice on dims and covering the source exactly
	udims := make([]int, r)
	for i := range udims {
		udims[i] = vrt.Int(vrt.Nm("u", i), 1, 3)
		vrt.Assume(udims[i] <= dims[i])
	}
	u, ue := mk("p", udims, false)
	index, from, size, whole := drawIndex(r, dims)
	for i := 0; i < r; i++ {
		if !whole[i] {
			vrt.Assume(size[i] == udims[i])
		}
	}
	y, err := x.Patch(index, u)
	vrt.Assert("valid patch accepted", err == nil)
	if err != nil {
		return
	}
	want := make([]float64, len(xe))
	idx := make([]int, r)
	for k := range want {
		unravel(k, dims, idx)
		inside := true
		for i := range idx {
			idx[i] -= from[i]
			if idx[i] < 0 || idx[i] >= udims[i] {
				inside = false
			}
		}
		if inside {
			want[k] = ue[ravel(idx, udims)]
		} else {
			want[k] = xe[k]
		}
	}
	checkTensor("patch", y, dims, want)
	// target and source are unchanged
	checkTensor("patch leaves target", x, dims, xe)
	checkTensor("patch leaves source", u, udims, ue)
	// slicing what was patched returns the source block
	full := make([]tensor.Range, r)
	for i := range full {
		full[i] = tensor.Range{From: from[i], To: from[i] + udims[i]}
	}
	if r > 0 {
		z, err := y.Slice(full)
		vrt.Assert("slice after patch accepted", err == nil)
		if err == nil {
			checkTensor("slice after patch", z, udims, ue)
		}
	}
	vrt.Reach("accepted")
}

func H_C06_concat() {
	r := vrt.Param("rank")
	maxd := vrt.Param("maxdim")
	n := vrt.Param("operands")
	dim := vrt.Int("dim", 0, r-1)
	base := symDims("d", r, maxd)
	ts := make([]T, n)
	es := make([][]float64, n)
	ds := make([][]int, n)
	odims := make([]int, r)
	copy(odims, base)
	total := 0
	for j := 0; j < n; j++ {
		dj := make([]int, r)
		copy(dj, base)
		dj[dim] = vrt.Concretize(vrt.Int(vrt.Nm("c", j), 1, maxd))
		ds[j] = dj
		ts[j], es[j] = mk(vrt.Nm("x", j), dj, false)
		total += dj[dim]
	}
	d := vrt.Concretize(dim)
	odims[d] = total
	y, err := tensor.Concat(ts, dim)
	vrt.Assert("valid concat accepted", err == nil)
	if err != nil {
		return
	}
	want := make([]float64, numel(odims))
	idx := make([]int, r)
	for k := range want {
		unravel(k, odims, idx)
		off := idx[d]
		j := 0
		for off >= ds[j][d] {
			off -= ds[j][d]
			j++
		}
		idx[d] = off
		want[k] = es[j][ravel(idx, ds[j])]
	}
	checkTensor("concat", y, odims, want)
	// slicing what was concatenated returns the pieces
	start := 0
	for j := 0; j < n; j++ {
		index := make([]tensor.Range, r)
		index[d] = tensor.Range{From: start, To: start + ds[j][d]}
		z, err := y.Slice(index)
		vrt.Assert("slice after concat accepted", err == nil)
		if err == nil {
			checkTensor("slice after concat", z, ds[j], es[j])
		}
		start += ds[j][d]
	}
	vrt.Reach("accepted")
}

// drawFactorisation draws a shape of solver-chosen rank 0..maxRank whose sizes multiply to n.
func drawFactorisation(n, maxRank int) []int {
	r2 := vrt.Concretize(vrt.Int("r2", 0, maxRank))
	shape := make([]int, r2)
	rem := n
	for i := 0; i < r2; i++ {
		if i == r2-1 {
			shape[i] = rem
			rem = 1
		} else {
			s := vrt.Concretize(vrt.Int(vrt.Nm("s", i), 1, rem))
			vrt.Assume(rem%s == 0)
			shape[i] = s
			rem /= s
		}
	}
	vrt.Assume(rem == 1)
	return shape
}

func H_C06_reshape() {
	r := vrt.Param("rank")
	dims := symDims("d", r, vrt.Param("maxdim"))
	x, xe := mk("x", dims, false)
	shape := drawFactorisation(numel(dims), vrt.Param("maxrank2"))
	y, err := x.Reshape(shape)
	vrt.Assert("valid reshape accepted", err == nil)
	if err != nil {
		return
	}
	checkTensor("reshape", y, shape, xe)
	vrt.Assert("NElems", y.NElems() == numel(shape))
	vrt.Reach("accepted")
}

func H_C06_flatten() {
	r := vrt.Param("rank")
	dims := symDims("d", r, vrt.Param("maxdim"))
	x, xe := mk("x", dims, false)
	from := vrt.Concretize(vrt.Int("from", 0, r-1))
	y, err := x.Flatten(from)
	vrt.Assert("valid flatten accepted", err == nil)
	if err != nil {
		return
	}
	odims := make([]int, from+1)
	copy(odims, dims[:from])
	odims[from] = numel(dims[from:])
	checkTensor("flatten", y, odims, xe)
	vrt.Reach("accepted")
}

func H_C06_squeeze() {
	r := vrt.Param("rank")
	dims := symDims("d", r, vrt.Param("maxdim"))
	dim := vrt.Concretize(vrt.Int("dim", 0, r-1))
	vrt.Assume(dims[dim] == 1)
	x, xe := mk("x", dims, false)
	y, err := x.Squeeze(dim)
	vrt.Assert("valid squeeze accepted", err == nil)
	if err != nil {
		return
	}
	odims := make([]int, 0, r)
	odims = append(odims, dims[:dim]...)
	odims = append(odims, dims[dim+1:]...)
	checkTensor("squeeze", y, odims, xe)
	vrt.Reach("accepted")
}

func H_C06_unsqueeze() {
	r := vrt.Param("rank")
	dims := symDims("d", r, vrt.Param("maxdim"))
	dim := vrt.Concretize(vrt.Int("dim", 0, r))
	x, xe := mk("x", dims, false)
	y, err := x.UnSqueeze(dim)
	vrt.Assert("valid unsqueeze accepted", err == nil)
	if err != nil {
		return
	}
	odims := make([]int, 0, r+1)
	odims = append(odims, dims[:dim]...)
	odims = append(odims, 1)
	odims = append(odims, dims[dim:]...)
	checkTensor("unsqueeze", y, odims, xe)
	vrt.Reach("accepted")
}

// drawBroadcastTarget draws a target shape of rank r..maxRank that dims can be broadcast to.
func drawBroadcastTarget(dims []int, maxRank, maxd int) []int {
	r := len(dims)
	r2 := vrt.Concretize(vrt.Int("r2", r, maxRank))
	shape := make([]int, r2)
	for j := 0; j < r2; j++ {
		shape[j] = vrt.Int(vrt.Nm("t", j), 1, maxd)
		i := j - (r2 - r)
		if i >= 0 {
			vrt.Assume(vrt.Or(dims[i] == shape[j], dims[i] == 1))
		}
	}
	return shape
}

// refBroadcast gives the elements of e (shape dims) repeated to shape (right-aligned).
func refBroadcast(e []float64, dims, shape []int) []float64 {
	r, r2 := len(dims), len(shape)
	out := make([]float64, numel(shape))
	idx := make([]int, r2)
	sidx := make([]int, r)
	for k := range out {
		unravel(k, shape, idx)
		for i := 0; i < r; i++ {
			if dims[i] == 1 {
				sidx[i] = 0
			} else {
				sidx[i] = idx[i+r2-r]
			}
		}
		out[k] = e[ravel(sidx, dims)]
	}
	return out
}

func H_C06_broadcast() {
	r := vrt.Param("rank")
	maxd := vrt.Param("maxdim")
	dims := symDims("d", r, maxd)
	shape := drawBroadcastTarget(dims, vrt.Param("maxrank2"), maxd)
	x, xe := mk("x", dims, false)
	y, err := x.Broadcast(shape)
	vrt.Assert("valid broadcast accepted", err == nil)
	if err != nil {
		return
	}
	for j := range shape {
		shape[j] = vrt.Concretize(shape[j])
	}
	checkTensor("broadcast", y, shape, refBroadcast(xe, dims, shape))
	vrt.Reach("accepted")
}

func H_C06_construct() {
	r := vrt.Param("rank")
	dims := symDims("d", r, vrt.Param("maxdim"))
	n := numel(dims)
	v := vrt.Float("v")
	tracked := vrt.Bool("tracked")
	c := conf(tracked)

	want := make([]float64, n)
	for k := range want {
		want[k] = v
	}
	f, err := tensor.Full(dims, v, c)
	vrt.Assert("Full accepted", err == nil)
	if err == nil {
		checkTensor("Full", f, dims, want)
		vrt.Assert("Full NElems", f.NElems() == n)
	}
	for k := range want {
		want[k] = 0
	}
	z, err := tensor.Zeros(dims, c)
	vrt.Assert("Zeros accepted", err == nil)
	if err == nil {
		checkTensor("Zeros", z, dims, want)
	}
	for k := range want {
		want[k] = 1
	}
	o, err := tensor.Ones(dims, c)
	vrt.Assert("Ones accepted", err == nil)
	if err == nil {
		checkTensor("Ones", o, dims, want)
	}
	// TensorOf holds exactly the requested values (mk goes through TensorOf for rank <= 4)
	x, xe := mk("x", dims, tracked)
	checkTensor("TensorOf", x, dims, xe)
	vrt.Assert("TensorOf NElems", x.NElems() == n)
	vrt.Reach("done")
}

func H_C06_eye() {
	n := vrt.Concretize(vrt.Int("n", 1, vrt.Param("maxn")))
	e, err := tensor.Eye(n, conf(vrt.Bool("tracked")))
	vrt.Assert("Eye accepted", err == nil)
	if err != nil {
		return
	}
	want := make([]float64, n*n)
	for i := 0; i < n; i++ {
		want[i*n+i] = 1
	}
	checkTensor("Eye", e, []int{n, n}, want)
	vrt.Reach("done")
}

// H_C06_nelems: NElems is the product of Shape for the result of every kind of operation (a result
// carries its own element count, whatever produced it).
func H_C06_nelems() {
	op := vrt.SParam("op")
	n := c08Arity(op)
	xs := make([]T, n)
	for i := range xs {
		xs[i], _ = mk(vrt.Nm("x", i), opShapeOf(op, i), vrt.Bool(vrt.Nm("tr", i)))
	}
	y, err := c08Apply(op, xs)
	if err != nil || y == nil {
		vrt.Assert("operation accepted", false)
		return
	}
	d := vrt.Dims(y)
	vrt.Assert(op+": Shape() is the result's shape", sameDims(y.Shape(), d))
	vrt.Assert(op+": NElems is the product of Shape", y.NElems() == numel(d))
	vrt.Assert(op+": the data holds exactly NElems elements", len(vrt.Flat(y)) == numel(d))
	vrt.Reach("done")
}

// H_C06_fpzero: BIT-PRECISE (binary64): construction and movement keep the sign of a zero element - the
// one bit the real-number model of the other C06 harnesses cannot see.  Zeros holds +0 and Full(dims, -0)
// holds -0 whichever was built first (same innermost size), and TensorOf / Slice / Reshape / Transpose /
// Concat deliver a -0 element as -0 and a +0 element as +0.
func H_C06_fpzero() {
	n := vrt.Param("n")
	order := vrt.Param("order")
	z0 := 0.
	negz := -z0
	c := conf(false)
	var z, f T
	var e1, e2 error
	if order == 0 {
		z, e1 = tensor.Zeros([]int{2, n}, c)
		f, e2 = tensor.Full([]int{n}, negz, c)
	} else {
		f, e2 = tensor.Full([]int{n}, negz, c)
		z, e1 = tensor.Zeros([]int{2, n}, c)
	}
	vrt.Assert("Zeros accepted", e1 == nil)
	vrt.Assert("Full accepted", e2 == nil)
	if e1 != nil || e2 != nil {
		return
	}
	for i := 0; i < n; i++ {
		a, _ := z.At(1, i)
		b, _ := f.At(i)
		vrt.Assert("bit-precise: Zeros holds +0 whatever constant tensor was built before", !math.Signbit(a))
		vrt.Assert("bit-precise: Full(dims, -0) holds -0 whatever constant tensor was built before", math.Signbit(b))
	}
	src := make([]float64, 2*n)
	negs := make([]bool, 2*n)
	for k := range src {
		negs[k] = vrt.Bool(vrt.Nm("neg", k)) // solver-chosen: which positions hold -0
		src[k] = vrt.IteF(negs[k], negz, z0)
	}
	x := fromFlat(src, []int{2, n}, false)
	y, err := x.Reshape([]int{n, 2})
	vrt.Assert("Reshape accepted", err == nil)
	w, err2 := x.Transpose()
	vrt.Assert("Transpose accepted", err2 == nil)
	cc, err3 := tensor.Concat([]T{x, z}, 0)
	vrt.Assert("Concat accepted", err3 == nil)
	if err != nil || err2 != nil || err3 != nil {
		return
	}
	for k := range src {
		neg := negs[k]
		a, _ := x.At(k/n, k%n)
		b, _ := y.At(k/2, k%2)
		d, _ := w.At(k%n, k/n)
		e, _ := cc.At(k/n, k%n)
		vrt.Assert("bit-precise: TensorOf keeps the sign of zero", math.Signbit(a) == neg)
		vrt.Assert("bit-precise: Reshape keeps the sign of zero", math.Signbit(b) == neg)
		vrt.Assert("bit-precise: Transpose keeps the sign of zero", math.Signbit(d) == neg)
		vrt.Assert("bit-precise: Concat keeps the sign of zero", math.Signbit(e) == neg)
	}
	vrt.Reach("done")
}
