package zzh

import (
	"github.com/sahandsafizadeh/qeep/component/initializers"
	"github.com/sahandsafizadeh/qeep/component/layers"
	"github.com/sahandsafizadeh/qeep/component/layers/activations"
	"github.com/sahandsafizadeh/qeep/component/metrics"
	"github.com/sahandsafizadeh/qeep/component/optimizers"
	"github.com/sahandsafizadeh/qeep/tensor"
	vrt "github.com/sahandsafizadeh/qeep/zzvrt"
)

/* C09 — component entry points. */

// oddInit is a custom initializer that misbehaves in a solver-chosen way.
type oddInit struct {
	mode int // 0 well-behaved, 1 returns nil tensor, 2 wrong length, 3 wrong rank, 4 returns an error
}

func (o oddInit) Init(shape []int) (tensor.Tensor, error) {
	switch o.mode {
	case 1:
		return nil, nil
	case 2:
		return tensor.Ones([]int{shape[0] + 1}, nil)
	case 3:
		return tensor.Ones([]int{shape[0], 1}, nil)
	case 4:
		return tensor.Ones([]int{-1}, nil)
	}
	return tensor.Ones(shape, conf(true))
}

// anyInputs draws 0..2 input tensors (nil entries allowed).
func anyInputs(maxRank int) ([]T, [][]int) {
	n := vrt.Concretize(vrt.Int("nin", 0, 2))
	xs := make([]T, n)
	ds := make([][]int, n)
	for i := range xs {
		xs[i], ds[i] = anyTensor(vrt.Nm("in", i), maxRank, 2, true)
	}
	return xs, ds
}

func H_C09_fc() {
	var cfg *layers.FCConfig
	valid := true
	O := 0
	if vrt.Bool("cfg_nil") {
		valid = false
	} else {
		in, out := vrt.Int("inputs", -2, 3), vrt.Int("outputs", -2, 3)
		cfg = &layers.FCConfig{Inputs: in, Outputs: out}
		valid = vrt.And(in > 0, out > 0)
		switch vrt.Concretize(vrt.Int("initmap", 0, 3)) {
		case 0: // nil map
		case 1:
			cfg.Initializers = map[string]layers.Initializer{}
		case 2:
			cfg.Initializers = map[string]layers.Initializer{"Weight": nil, "Other": oddInit{}}
			valid = false
		case 3:
			mw := vrt.Concretize(vrt.Int("wmode", 0, 4))
			mb := vrt.Concretize(vrt.Int("bmode", 0, 4))
			cfg.Initializers = map[string]layers.Initializer{"Weight": oddInit{mode: mw}, "Bias": oddInit{mode: mb}}
			valid = vrt.And(valid, mw == 0 && mb == 0)
		}
		if valid {
			O = vrt.Concretize(out)
		}
	}
	var fc *layers.FC
	var err error
	p := vrt.Try(func() { fc, err = layers.NewFC(cfg) })
	vrt.Assert("NewFC: does not panic", !p)
	if p {
		return
	}
	if !valid {
		vrt.Assert("NewFC: invalid configuration is reported as an error", err != nil)
		vrt.Assert("NewFC: no layer on error", fc == nil)
		vrt.Reach("rejected")
		return
	}
	vrt.Assert("NewFC: valid configuration accepted", err == nil)
	if err != nil || fc == nil {
		return
	}
	// Forward with arbitrary inputs
	xs, ds := anyInputs(3)
	fvalid := len(xs) == 1 && xs[0] != nil && len(ds[0]) == 2
	var y T
	q := vrt.Try(func() { y, err = fc.Forward(xs...) })
	var shape []int
	if fvalid {
		shape = []int{ds[0][0], O}
	}
	outcome("FC.Forward", q, err, y, true, fvalid, shape, true)
}

func H_C09_input() {
	in := layers.NewInput()
	seeded := vrt.Bool("seeded")
	if seeded {
		s, _ := mk("s", []int{2}, false)
		in.SeedFunc = func() tensor.Tensor { return s }
	}
	n := vrt.Concretize(vrt.Int("nin", 0, 1))
	xs := make([]T, n)
	for i := range xs {
		xs[i], _ = anyTensor(vrt.Nm("in", i), 1, 2, true)
	}
	var y T
	var err error
	p := vrt.Try(func() { y, err = in.Forward(xs...) })
	valid := n == 0 && seeded
	outcome("Input.Forward", p, err, y, true, valid, []int{2}, true)
}

func H_C09_act() {
	name := vrt.SParam("act")
	xs, ds := anyInputs(2)
	valid := len(xs) == 1 && xs[0] != nil
	var fwd func(...tensor.Tensor) (tensor.Tensor, error)
	switch name {
	case "Relu":
		fwd = activations.NewRelu().Forward
	case "LeakyRelu":
		if vrt.Bool("cfg_nil") {
			fwd = activations.NewLeakyRelu(nil).Forward
		} else {
			fwd = activations.NewLeakyRelu(&activations.LeakyReluConfig{M: vrt.Float("m")}).Forward
		}
	case "Sigmoid":
		fwd = activations.NewSigmoid().Forward
	case "Tanh":
		fwd = activations.NewTanh().Forward
	case "Softmax":
		var cfg *activations.SoftmaxConfig
		dim := 0
		if !vrt.Bool("cfg_nil") {
			dim = vrt.Concretize(vrt.Int("dim", -2, 3))
			cfg = &activations.SoftmaxConfig{Dim: dim}
		}
		var sm *activations.Softmax
		var err error
		p := vrt.Try(func() { sm, err = activations.NewSoftmax(cfg) })
		vrt.Assert("NewSoftmax: does not panic", !p)
		if p {
			return
		}
		if dim < 0 {
			vrt.Assert("NewSoftmax: negative Dim is reported as an error", err != nil)
			vrt.Assert("NewSoftmax: no layer on error", sm == nil)
			vrt.Reach("rejected")
			return
		}
		vrt.Assert("NewSoftmax: valid config accepted", err == nil)
		if err != nil || sm == nil {
			return
		}
		fwd = sm.Forward
		valid = valid && len(ds[0]) > dim
	}
	var y T
	var err error
	p := vrt.Try(func() { y, err = fwd(xs...) })
	var shape []int
	if valid {
		shape = ds[0]
	}
	outcome(name+".Forward", p, err, y, true, valid, shape, true)
}

func H_C09_loss() {
	name := vrt.SParam("loss")
	yp, dp := anyTensor("p", 3, 2, true)
	yt, dt := anyTensor("t", 3, 2, true)
	valid := yp != nil && yt != nil
	if valid {
		if name == "CE" {
			valid = len(dp) == 2 && sameDims(dp, dt)
		} else {
			valid = len(dp) == 1 && sameDims(dp, dt)
		}
	}
	var l T
	var err error
	p := vrt.Try(func() { l, err = computeLoss(name, yp, yt) })
	outcome(name+".Compute", p, err, l, true, valid, []int{}, true)
}

func H_C09_metric() {
	acc := metrics.NewAccuracy()
	yp, dp := anyTensor("p", 2, 2, true)
	yt, dt := anyTensor("t", 2, 3, true)
	valid := yp != nil && yt != nil && len(dp) == 1 && sameDims(dp, dt)
	var err error
	p := vrt.Try(func() { err = acc.Accumulate(yp, yt) })
	outcome("Accuracy.Accumulate", p, err, nil, false, valid, nil, false)
	var res float64
	q := vrt.Try(func() { res, err = acc.Result() })
	vrt.Assert("Accuracy.Result: does not panic", !q)
	vrt.Assert("Accuracy.Result: no error", err == nil)
	_ = res
}

func H_C09_sgd() {
	var opt *optimizers.SGD
	if vrt.Bool("cfg_nil") {
		opt = optimizers.NewSGD(nil)
	} else {
		opt = optimizers.NewSGD(&optimizers.SGDConfig{LearningRate: vrt.Float("lr")})
	}
	mode := vrt.Concretize(vrt.Int("mode", 0, 3))
	var err error
	var p bool
	valid := false
	var w T
	var dims []int
	switch mode {
	case 0:
		p = vrt.Try(func() { err = opt.Update(nil) })
	case 1:
		p = vrt.Try(func() { err = opt.Update(&w) })
	default:
		w, dims = anyTensor("w", 2, 2, false)
		if mode == 3 {
			valid = vrt.Tracked(w)
			if tensor.BackPropagate(w) != nil {
				vrt.Assume(false)
			}
		}
		p = vrt.Try(func() { err = opt.Update(&w) })
	}
	// on error the pointee is left as it was (C17); on success it holds a tensor of the same shape
	outcome("SGD.Update", p, err, w, valid, valid, dims, true)
}

func H_C09_init() {
	name := vrt.SParam("init")
	var in initer
	var err error
	valid := true
	nilCfg := vrt.Bool("cfg_nil")
	p := false
	switch name {
	case "Full":
		if nilCfg {
			in = initializers.NewFull(nil)
		} else {
			in = initializers.NewFull(&initializers.FullConfig{Value: vrt.Float("v")})
		}
	case "Uniform":
		var c *initializers.UniformConfig
		if !nilCfg {
			lo, hi := vrt.Float("lo"), vrt.Float("hi")
			c = &initializers.UniformConfig{Lower: lo, Upper: hi}
			valid = lo < hi
		}
		var u *initializers.Uniform
		p = vrt.Try(func() { u, err = initializers.NewUniform(c) })
		if u != nil {
			in = u
		}
	case "Normal":
		var c *initializers.NormalConfig
		if !nilCfg {
			sd := vrt.Float("sd")
			c = &initializers.NormalConfig{Mean: vrt.Float("mu"), StdDev: sd}
			valid = sd > 0
		}
		var u *initializers.Normal
		p = vrt.Try(func() { u, err = initializers.NewNormal(c) })
		if u != nil {
			in = u
		}
	default:
		fi, fo := vrt.Int("fanIn", -2, 3), vrt.Int("fanOut", -2, 3)
		valid = !nilCfg
		switch name {
		case "HeUniform":
			var c *initializers.HeUniformConfig
			if !nilCfg {
				c = &initializers.HeUniformConfig{FanIn: fi}
				valid = fi > 0
			}
			var u *initializers.HeUniform
			p = vrt.Try(func() { u, err = initializers.NewHeUniform(c) })
			if u != nil {
				in = u
			}
		case "HeNormal":
			var c *initializers.HeNormalConfig
			if !nilCfg {
				c = &initializers.HeNormalConfig{FanIn: fi}
				valid = fi > 0
			}
			var u *initializers.HeNormal
			p = vrt.Try(func() { u, err = initializers.NewHeNormal(c) })
			if u != nil {
				in = u
			}
		case "XavierUniform":
			var c *initializers.XavierUniformConfig
			if !nilCfg {
				c = &initializers.XavierUniformConfig{FanIn: fi, FanOut: fo}
				valid = vrt.And(fi > 0, fo > 0)
			}
			var u *initializers.XavierUniform
			p = vrt.Try(func() { u, err = initializers.NewXavierUniform(c) })
			if u != nil {
				in = u
			}
		case "XavierNormal":
			var c *initializers.XavierNormalConfig
			if !nilCfg {
				c = &initializers.XavierNormalConfig{FanIn: fi, FanOut: fo}
				valid = vrt.And(fi > 0, fo > 0)
			}
			var u *initializers.XavierNormal
			p = vrt.Try(func() { u, err = initializers.NewXavierNormal(c) })
			if u != nil {
				in = u
			}
		}
	}
	vrt.Assert("New"+name+": does not panic", !p)
	if p {
		return
	}
	if !valid {
		vrt.Assert("New"+name+": invalid configuration is reported as an error", err != nil)
		vrt.Assert("New"+name+": no initializer on error", in == nil)
		vrt.Reach("rejected")
		return
	}
	vrt.Assert("New"+name+": valid configuration accepted", err == nil)
	if err != nil || in == nil {
		return
	}
	shape := anyInts("shape", 3, -2, 4)
	var x T
	q := vrt.Try(func() { x, err = in.Init(shape) })
	outcome(name+".Init", q, err, x, true, allPositive(shape), append([]int{}, shape...), true)
}
