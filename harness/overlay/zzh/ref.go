package zzh

import (
	"math"

	vrt "github.com/sahandsafizadeh/qeep/zzvrt"
)

/* Reference models: flat row-major data, explicit index loops. */

// drawCompat draws two shapes of the given ranks that are broadcast-compatible (right-aligned).
func drawCompat(ra, rb, maxd int) (da, db []int) {
	da = symDims("a", ra, maxd)
	db = symDims("b", rb, maxd)
	for i := 1; i <= ra && i <= rb; i++ {
		x, y := da[ra-i], db[rb-i]
		vrt.Assume(vrt.Or(x == y, vrt.Or(x == 1, y == 1)))
	}
	for i := range da {
		da[i] = vrt.Concretize(da[i])
	}
	for i := range db {
		db[i] = vrt.Concretize(db[i])
	}
	return
}

// bshape is the NumPy broadcast shape of two compatible shapes.
func bshape(da, db []int) []int {
	ra, rb := len(da), len(db)
	r := ra
	if rb > r {
		r = rb
	}
	out := make([]int, r)
	for j := 0; j < r; j++ {
		x, y := 1, 1
		if i := j - (r - ra); i >= 0 {
			x = da[i]
		}
		if i := j - (r - rb); i >= 0 {
			y = db[i]
		}
		if x > y {
			out[j] = x
		} else {
			out[j] = y
		}
	}
	return out
}

// bsrc maps a multi-index of the broadcast shape to the flat index in an operand of shape dims.
func bsrc(idx []int, dims []int) int {
	r, r2 := len(dims), len(idx)
	k := 0
	for i := 0; i < r; i++ {
		v := idx[i+r2-r]
		if dims[i] == 1 {
			v = 0
		}
		k = k*dims[i] + v
	}
	return k
}

func applyUnary(op string, x T, c float64) T {
	switch op {
	case "Scale":
		return x.Scale(c)
	case "Pow":
		return x.Pow(c)
	case "Exp":
		return x.Exp()
	case "Log":
		return x.Log()
	case "Sin":
		return x.Sin()
	case "Cos":
		return x.Cos()
	case "Tan":
		return x.Tan()
	case "Sinh":
		return x.Sinh()
	case "Cosh":
		return x.Cosh()
	case "Tanh":
		return x.Tanh()
	}
	vrt.Assert("harness: unknown unary op", false)
	return nil
}

func refUnary(op string, v, c float64) float64 {
	switch op {
	case "Scale":
		return c * v
	case "Pow":
		return math.Pow(v, c)
	case "Exp":
		return math.Exp(v)
	case "Log":
		return math.Log(v)
	case "Sin":
		return math.Sin(v)
	case "Cos":
		return math.Cos(v)
	case "Tan":
		return math.Tan(v)
	case "Sinh":
		return math.Sinh(v)
	case "Cosh":
		return math.Cosh(v)
	case "Tanh":
		return math.Tanh(v)
	}
	return 0
}

func applyBinary(op string, a, b T) (T, error) {
	switch op {
	case "Add":
		return a.Add(b)
	case "Sub":
		return a.Sub(b)
	case "Mul":
		return a.Mul(b)
	case "Div":
		return a.Div(b)
	case "ElMax":
		return a.ElMax(b)
	case "ElMin":
		return a.ElMin(b)
	case "Eq":
		return a.Eq(b)
	case "Ne":
		return a.Ne(b)
	case "Gt":
		return a.Gt(b)
	case "Ge":
		return a.Ge(b)
	case "Lt":
		return a.Lt(b)
	case "Le":
		return a.Le(b)
	case "Dot":
		return a.Dot(b)
	case "MatMul":
		return a.MatMul(b)
	}
	vrt.Assert("harness: unknown binary op", false)
	return nil, nil
}

func b2f(c bool) float64 { return vrt.IteF(c, 1, 0) }

func refBinary(op string, x, y float64) float64 {
	switch op {
	case "Add":
		return x + y
	case "Sub":
		return x - y
	case "Mul":
		return x * y
	case "Div":
		return x / y
	case "ElMax":
		return vrt.IteF(x >= y, x, y)
	case "ElMin":
		return vrt.IteF(x <= y, x, y)
	case "Eq":
		return b2f(x == y)
	case "Ne":
		return b2f(x != y)
	case "Gt":
		return b2f(x > y)
	case "Ge":
		return b2f(x >= y)
	case "Lt":
		return b2f(x < y)
	case "Le":
		return b2f(x <= y)
	}
	return 0
}

// tieOrFar assumes x, y are identical or differ by far more than the library's equality tolerance.
func tieOrFar(x, y float64) {
	d := x - y
	vrt.Assume(vrt.Or(x == y, vrt.Or(d > 1e-200, d < -1e-200)))
}
