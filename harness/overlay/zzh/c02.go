package zzh

import (
	"math"

	"github.com/sahandsafizadeh/qeep/tensor"
	vrt "github.com/sahandsafizadeh/qeep/zzvrt"
)

/* C02 — each differentiable operation's backward rule is its vector-Jacobian product.
   root = y * G with G an untracked tensor of arbitrary (symbolic) values, so dRoot/dy = G. */

// backThrough back-propagates an arbitrary upstream weighting G through y and returns G's elements.
func backThrough(y T) ([]float64, bool) {
	dims := vrt.Dims(y)
	G, ge := mk("g", dims, false)
	root, err := y.Mul(G)
	vrt.Assert("weighting product accepted", err == nil)
	if err != nil {
		return nil, false
	}
	var bpErr error
	panicked := vrt.Try(func() { bpErr = tensor.BackPropagate(root) })
	vrt.Assert("back-propagation does not panic", !panicked)
	if panicked {
		return nil, false
	}
	vrt.Assert("back-propagation after an accepted forward call succeeds", bpErr == nil)
	if bpErr != nil {
		return nil, false
	}
	return ge, true
}

// backThroughFan: like backThrough, but the tensor may feed two consumers of unequal depth that
// reconverge: fan 1: (y*G) + y, fan 2: y + (y*G); the effective upstream weighting is then G + 1.
func backThroughFan(y T, fan int) ([]float64, bool) {
	if fan == 0 {
		return backThrough(y)
	}
	dims := vrt.Dims(y)
	G, ge := mk("g", dims, false)
	yg, err := y.Mul(G)
	vrt.Assert("weighting product accepted", err == nil)
	if err != nil {
		return nil, false
	}
	var root T
	if fan == 1 {
		root, err = yg.Add(y)
	} else {
		root, err = y.Add(yg)
	}
	vrt.Assert("reconverging sum accepted", err == nil)
	if err != nil {
		return nil, false
	}
	if !backprop("fan-out", root) {
		return nil, false
	}
	up := make([]float64, len(ge))
	for k := range up {
		up[k] = ge[k] + 1
	}
	return up, true
}

// checkGrad asserts the gradient state of operand x against the reference VJP.
func checkGrad(label string, x T, tracked bool, dims []int, want []float64) {
	g := x.Gradient()
	if !tracked {
		vrt.Assert(label+": untracked operand receives no gradient", g == nil)
		return
	}
	if g == nil {
		vrt.Assert(label+": tracked operand receives a gradient", false)
		return
	}
	if !sameDims(vrt.Dims(g), dims) {
		vrt.Assert(label+": gradient has the operand's shape", false)
		return
	}
	f := vrt.Flat(g)
	if len(f) != len(want) {
		vrt.Assert(label+": gradient element count", false)
		return
	}
	for k := range f {
		vrt.AssertFinite(label+": finite", f[k])
		vrt.AssertEqF(label, f[k], want[k])
	}
}

func concDims(dims []int) {
	for i := range dims {
		dims[i] = vrt.Concretize(dims[i])
	}
}

func zeros(n int) []float64 { return make([]float64, n) }

/* ----- unary element-wise ----- */

func refUnaryGrad(op string, cmode int, v, c, g float64) float64 {
	switch op {
	case "Scale":
		return c * g
	case "Pow":
		switch cmode {
		case 1:
			return 0
		case 2:
			return g
		case 3:
			return 2 * v * g
		}
		return c * math.Pow(v, c-1) * g
	case "Exp":
		return g * math.Exp(v)
	case "Log":
		return g / v
	case "Sin":
		return g * math.Cos(v)
	case "Cos":
		return -g * math.Sin(v)
	case "Tan":
		cv := math.Cos(v)
		return g / (cv * cv)
	case "Sinh":
		return g * math.Cosh(v)
	case "Cosh":
		return g * math.Sinh(v)
	case "Tanh":
		t := math.Tanh(v)
		return g * (1 - t*t)
	}
	return 0
}

func powExponent(mode int) (float64, bool) {
	switch mode {
	case 1:
		return 0, true
	case 2:
		return 1, true
	case 3:
		return 2, true
	case 4:
		return -1, true
	case 5:
		return 0.5, true
	case 6:
		return 3, true
	case 7:
		return -2, true
	}
	return vrt.Float("c"), false
}

func H_C02_unary() {
	op := vrt.SParam("op")
	r := vrt.Param("rank")
	dims := symDims("d", r, vrt.Param("maxdim"))
	concDims(dims)
	x, xe := mk("x", dims, true)
	c, fixed := powExponent(vrt.Param("cmode"))
	// differentiability domain
	for _, v := range xe {
		switch op {
		case "Log":
			vrt.Assume(v > 0)
		case "Tan":
			vrt.Assume(math.Cos(v) != 0)
		case "Pow":
			if !fixed {
				vrt.Assume(v > 0)
			} else if c == -1 || c == -2 {
				vrt.Assume(v != 0)
			} else if c == 0.5 {
				vrt.Assume(v > 0)
			}
		}
	}
	y := applyUnary(op, x, c)
	ge, ok := backThrough(y)
	if !ok {
		return
	}
	want := make([]float64, len(xe))
	for k := range want {
		want[k] = refUnaryGrad(op, vrt.Param("cmode"), xe[k], c, ge[k])
	}
	checkGrad(op, x, true, dims, want)
	vrt.Reach("done")
}

/* ----- binary same-shape ----- */

func H_C02_binary() {
	op := vrt.SParam("op")
	r := vrt.Param("rank")
	dims := symDims("d", r, vrt.Param("maxdim"))
	concDims(dims)
	ta, tb := vrt.Bool("ta"), vrt.Bool("tb")
	vrt.Assume(vrt.Or(ta, tb))
	a, ae := mk("x", dims, ta)
	b, be := mk("y", dims, tb)
	maybeUsedTogether(a, b)
	for k := range ae {
		switch op {
		case "Div":
			vrt.Assume(be[k] != 0)
		case "ElMax", "ElMin":
			d := ae[k] - be[k]
			vrt.Assume(vrt.Or(d > 1e-200, d < -1e-200))
		}
	}
	y, err := applyBinary(op, a, b)
	vrt.Assert("same-shape operands accepted", err == nil)
	if err != nil {
		return
	}
	ge, ok := backThrough(y)
	if !ok {
		return
	}
	ga, gb := zeros(len(ae)), zeros(len(ae))
	for k := range ae {
		g, x, z := ge[k], ae[k], be[k]
		switch op {
		case "Add":
			ga[k], gb[k] = g, g
		case "Sub":
			ga[k], gb[k] = g, -g
		case "Mul":
			ga[k], gb[k] = g*z, g*x
		case "Div":
			ga[k], gb[k] = g/z, -g*x/(z*z)
		case "ElMax":
			ga[k], gb[k] = vrt.IteF(x > z, g, 0), vrt.IteF(z > x, g, 0)
		case "ElMin":
			ga[k], gb[k] = vrt.IteF(x < z, g, 0), vrt.IteF(z < x, g, 0)
		}
	}
	checkGrad(op+" d/da", a, ta, dims, ga)
	checkGrad(op+" d/db", b, tb, dims, gb)
	vrt.Reach("done")
}

/* ----- shape operations ----- */

func H_C02_shape() {
	op := vrt.SParam("op")
	r := vrt.Param("rank")
	dims := symDims("d", r, vrt.Param("maxdim"))
	concDims(dims)
	var y T
	var err error
	var perm []int // perm[k] = flat index in y's gradient that lands on x[k]
	n := numel(dims)
	switch op {
	case "Squeeze":
		dim := vrt.Concretize(vrt.Int("dim", 0, r-1))
		vrt.Assume(dims[dim] == 1)
	}
	x, _ := mk("x", dims, true)
	switch op {
	case "Transpose":
		y, err = x.Transpose()
		m, q := dims[r-2], dims[r-1]
		perm = make([]int, n)
		for k := 0; k < n; k++ {
			b, i, j := k/(m*q), (k/q)%m, k%q
			perm[k] = b*m*q + j*m + i
		}
	case "Reshape":
		shape := drawFactorisation(n, vrt.Param("maxrank2"))
		y, err = x.Reshape(shape)
	case "UnSqueeze":
		y, err = x.UnSqueeze(vrt.Concretize(vrt.Int("dim", 0, r)))
	case "Squeeze":
		y, err = x.Squeeze(vrt.Concretize(vrt.Int("dim", 0, r-1)))
	case "Flatten":
		y, err = x.Flatten(vrt.Concretize(vrt.Int("dim", 0, r-1)))
	}
	vrt.Assert("valid argument accepted", err == nil)
	if err != nil {
		return
	}
	ge, ok := backThrough(y)
	if !ok {
		return
	}
	want := make([]float64, n)
	for k := range want {
		if perm != nil {
			want[k] = ge[perm[k]]
		} else {
			want[k] = ge[k]
		}
	}
	checkGrad(op, x, true, dims, want)
	vrt.Reach("done")
}

func H_C02_slice() {
	r := vrt.Param("rank")
	dims := symDims("d", r, vrt.Param("maxdim"))
	concDims(dims)
	x, _ := mk("x", dims, true)
	index, from, odims, _ := drawIndex(r, dims)
	y, err := x.Slice(index)
	vrt.Assert("valid index accepted", err == nil)
	if err != nil {
		return
	}
	ge, ok := backThrough(y)
	if !ok {
		return
	}
	concDims(odims)
	want := zeros(numel(dims))
	idx := make([]int, r)
	for k := range ge {
		unravel(k, odims, idx)
		for i := range idx {
			idx[i] += from[i]
		}
		want[ravel(idx, dims)] = ge[k]
	}
	checkGrad("Slice", x, true, dims, want)
	vrt.Reach("done")
}

func H_C02_patch() {
	r := vrt.Param("rank")
	dims := symDims("d", r, vrt.Param("maxdim"))
	concDims(dims)
	tx, tp := vrt.Bool("tx"), vrt.Bool("tp")
	vrt.Assume(vrt.Or(tx, tp))
	x, _ := mk("x", dims, tx)
	udims := make([]int, r)
	for i := range udims {
		udims[i] = vrt.Concretize(vrt.Int(vrt.Nm("u", i), 1, 3))
		vrt.Assume(udims[i] <= dims[i])
	}
	p, _ := mk("p", udims, tp)
	index, from, size, whole := drawIndex(r, dims)
	for i := 0; i < r; i++ {
		if !whole[i] {
			vrt.Assume(size[i] == udims[i])
		}
	}
	y, err := x.Patch(index, p)
	vrt.Assert("valid patch accepted", err == nil)
	if err != nil {
		return
	}
	ge, ok := backThrough(y)
	if !ok {
		return
	}
	gx := make([]float64, len(ge))
	gp := zeros(numel(udims))
	idx := make([]int, r)
	for k := range ge {
		unravel(k, dims, idx)
		inside := true
		for i := range idx {
			idx[i] -= vrt.Concretize(from[i])
			if idx[i] < 0 || idx[i] >= udims[i] {
				inside = false
			}
		}
		if inside {
			gx[k] = 0
			gp[ravel(idx, udims)] = ge[k]
		} else {
			gx[k] = ge[k]
		}
	}
	checkGrad("Patch d/dtarget", x, tx, dims, gx)
	checkGrad("Patch d/dsource", p, tp, udims, gp)
	vrt.Reach("done")
}

func H_C02_concat() {
	r := vrt.Param("rank")
	maxd := vrt.Param("maxdim")
	n := vrt.Param("operands")
	dim := vrt.Concretize(vrt.Int("dim", 0, r-1))
	base := symDims("d", r, maxd)
	concDims(base)
	ts := make([]T, n)
	ds := make([][]int, n)
	tr := make([]bool, n)
	any := false
	odims := make([]int, r)
	copy(odims, base)
	total := 0
	for j := 0; j < n; j++ {
		dj := make([]int, r)
		copy(dj, base)
		dj[dim] = vrt.Concretize(vrt.Int(vrt.Nm("c", j), 1, maxd))
		ds[j] = dj
		tr[j] = vrt.Bool(vrt.Nm("t", j))
		any = vrt.Or(any, tr[j])
		ts[j], _ = mk(vrt.Nm("x", j), dj, tr[j])
		total += dj[dim]
	}
	vrt.Assume(any)
	odims[dim] = total
	y, err := tensor.Concat(ts, dim)
	vrt.Assert("valid concat accepted", err == nil)
	if err != nil {
		return
	}
	ge, ok := backThrough(y)
	if !ok {
		return
	}
	wants := make([][]float64, n)
	for j := range wants {
		wants[j] = zeros(numel(ds[j]))
	}
	idx := make([]int, r)
	for k := range ge {
		unravel(k, odims, idx)
		off := idx[dim]
		j := 0
		for off >= ds[j][dim] {
			off -= ds[j][dim]
			j++
		}
		idx[dim] = off
		wants[j][ravel(idx, ds[j])] = ge[k]
	}
	for j := 0; j < n; j++ {
		checkGrad("Concat operand", ts[j], tr[j], ds[j], wants[j])
	}
	vrt.Reach("done")
}

/* ----- reductions along a dimension ----- */

func H_C02_reduce() {
	op := vrt.SParam("op")
	r := vrt.Param("rank")
	dims := symDims("d", r, vrt.Param("maxdim"))
	concDims(dims)
	dim := vrt.Concretize(vrt.Int("dim", 0, r-1))
	x, xe := mk("x", dims, true)
	n := dims[dim]
	odims := make([]int, 0, r)
	odims = append(odims, dims[:dim]...)
	odims = append(odims, dims[dim+1:]...)
	// fibres
	no := numel(odims)
	fib := make([][]int, no) // flat indexes of each fibre
	oidx := make([]int, r-1)
	idx := make([]int, r)
	for k := 0; k < no; k++ {
		unravel(k, odims, oidx)
		copy(idx[:dim], oidx[:dim])
		copy(idx[dim+1:], oidx[dim:])
		fib[k] = make([]int, n)
		for j := 0; j < n; j++ {
			idx[dim] = j
			fib[k][j] = ravel(idx, dims)
		}
	}
	// differentiability domain
	for k := 0; k < no; k++ {
		switch op {
		case "Max", "Min":
			for i := 0; i < n; i++ {
				for j := i + 1; j < n; j++ {
					d := xe[fib[k][i]] - xe[fib[k][j]]
					vrt.Assume(vrt.Or(d > 1e-200, d < -1e-200))
				}
			}
		case "Std":
			if n > 1 {
				v := make([]float64, n)
				for j := range v {
					v[j] = xe[fib[k][j]]
				}
				vrt.Assume(refVar(v) > 0)
			}
		}
	}
	y, err := applyAlong(op, x, dim)
	vrt.Assert("valid dim accepted", err == nil)
	if err != nil {
		return
	}
	ge, ok := backThrough(y)
	if !ok {
		return
	}
	want := zeros(len(xe))
	for k := 0; k < no; k++ {
		g := ge[k]
		v := make([]float64, n)
		s := 0.
		for j := range v {
			v[j] = xe[fib[k][j]]
			s += v[j]
		}
		mean := s / float64(n)
		for j := 0; j < n; j++ {
			var w float64
			switch op {
			case "Sum":
				w = g
			case "Avg", "Mean":
				w = g / float64(n)
			case "Max":
				isMax := true
				for i := 0; i < n; i++ {
					isMax = vrt.And(isMax, v[j] >= v[i])
				}
				w = vrt.IteF(isMax, g, 0)
			case "Min":
				isMin := true
				for i := 0; i < n; i++ {
					isMin = vrt.And(isMin, v[j] <= v[i])
				}
				w = vrt.IteF(isMin, g, 0)
			case "Var":
				if n > 1 {
					w = g * 2 * (v[j] - mean) / float64(n-1)
				}
			case "Std":
				if n > 1 {
					sd := math.Sqrt(refVar(v))
					w = g * (v[j] - mean) / (float64(n-1) * sd)
				}
			}
			want[fib[k][j]] = w
		}
	}
	checkGrad(op+"Along", x, true, dims, want)
	vrt.Reach("done")
}

/* ----- Dot and MatMul without implicit expansion ----- */

func H_C02_dot() {
	r := vrt.Param("rank")
	dims := symDims("d", r, vrt.Param("maxdim"))
	concDims(dims)
	ta, tb := vrt.Bool("ta"), vrt.Bool("tb")
	vrt.Assume(vrt.Or(ta, tb))
	a, ae := mk("x", dims, ta)
	b, be := mk("y", dims, tb)
	maybeUsedTogether(a, b)
	y, err := a.Dot(b)
	vrt.Assert("valid dot accepted", err == nil)
	if err != nil {
		return
	}
	ge, ok := backThrough(y)
	if !ok {
		return
	}
	n := dims[r-1]
	ga, gb := zeros(len(ae)), zeros(len(ae))
	for k := range ae {
		ga[k] = ge[k/n] * be[k]
		gb[k] = ge[k/n] * ae[k]
	}
	checkGrad("Dot d/da", a, ta, dims, ga)
	checkGrad("Dot d/db", b, tb, dims, gb)
	vrt.Reach("done")
}

func H_C02_matmul() {
	r := vrt.Param("rank")
	maxd := vrt.Param("maxdim")
	batch := symDims("d", r-2, maxd)
	concDims(batch)
	m := vrt.Concretize(vrt.Int("m", 1, maxd))
	n := vrt.Concretize(vrt.Int("n", 1, maxd))
	q := vrt.Concretize(vrt.Int("k", 1, maxd))
	da := append(append([]int{}, batch...), m, n)
	db := append(append([]int{}, batch...), n, q)
	ta, tb := vrt.Bool("ta"), vrt.Bool("tb")
	vrt.Assume(vrt.Or(ta, tb))
	a, ae := mk("x", da, ta)
	b, be := mk("y", db, tb)
	maybeUsedTogether(a, b)
	y, err := a.MatMul(b)
	vrt.Assert("valid matmul accepted", err == nil)
	if err != nil {
		return
	}
	ge, ok := backThrough(y)
	if !ok {
		return
	}
	nb := numel(batch)
	ga, gb := zeros(len(ae)), zeros(len(be))
	for t := 0; t < nb; t++ {
		for i := 0; i < m; i++ {
			for p := 0; p < n; p++ {
				s := 0.
				for j := 0; j < q; j++ {
					s += ge[(t*m+i)*q+j] * be[(t*n+p)*q+j]
				}
				ga[(t*m+i)*n+p] = s
			}
		}
		for p := 0; p < n; p++ {
			for j := 0; j < q; j++ {
				s := 0.
				for i := 0; i < m; i++ {
					s += ae[(t*m+i)*n+p] * ge[(t*m+i)*q+j]
				}
				gb[(t*n+p)*q+j] = s
			}
		}
	}
	checkGrad("MatMul d/da", a, ta, da, ga)
	checkGrad("MatMul d/db", b, tb, db, gb)
	vrt.Reach("done")
}
