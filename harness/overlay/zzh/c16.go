package zzh

import (
	"github.com/sahandsafizadeh/qeep/component/layers"
	"github.com/sahandsafizadeh/qeep/component/optimizers"
	"github.com/sahandsafizadeh/qeep/tensor"
	vrt "github.com/sahandsafizadeh/qeep/zzvrt"
)

/* C16 — the FC layer is an affine map per output unit with live, trainable parameters.
   C17 — an SGD update subtracts exactly learning-rate times gradient. */

// vecInit is a custom initializer holding fixed (symbolic) values.
type vecInit struct {
	vals []float64
}

func (c vecInit) Init(shape []int) (tensor.Tensor, error) {
	return tensor.TensorOf(c.vals, conf(true))
}

// newFC builds an FC layer whose parameters hold the given values.
// mode 0: custom initializers; mode 1: default initializers, then replacement through Weights().
func newFC(mode, F, O int, we, be []float64) (*layers.FC, bool) {
	var fc *layers.FC
	var err error
	if mode == 0 {
		fc, err = layers.NewFC(&layers.FCConfig{Inputs: F, Outputs: O, Initializers: map[string]layers.Initializer{
			"Weight": vecInit{vals: we},
			"Bias":   vecInit{vals: be},
		}})
	} else {
		fc, err = layers.NewFC(&layers.FCConfig{Inputs: F, Outputs: O})
	}
	vrt.Assert("valid FC config accepted", err == nil)
	if err != nil || fc == nil {
		return nil, false
	}
	ws := fc.Weights()
	vrt.Assert("FC exposes two trainable weights", len(ws) == 2)
	if len(ws) != 2 {
		return nil, false
	}
	vrt.Assert("weights are trainable", vrt.And(ws[0].Trainable, ws[1].Trainable))
	for i := 0; i < 2; i++ {
		if ws[i].Value == nil || *ws[i].Value == nil {
			vrt.Assert("weight pointers address tensors", false)
			return nil, false
		}
		vrt.Assert("initialised parameters have shape [Outputs]", sameDims(vrt.Dims(*ws[i].Value), []int{O}))
		vrt.Assert("initialised parameters are tracked", vrt.Tracked(*ws[i].Value))
	}
	if mode == 1 {
		// parameter replacement through the Weights() pointers must be seen by the next Forward
		*ws[0].Value = fromFlat(we, []int{O}, true)
		*ws[1].Value = fromFlat(be, []int{O}, true)
	}
	return fc, true
}

func H_C16_fc() {
	mode := vrt.Param("mode")
	B := vrt.Concretize(vrt.Int("B", 1, vrt.Param("maxb")))
	F := vrt.Concretize(vrt.Int("F", 1, vrt.Param("maxf")))
	O := vrt.Concretize(vrt.Int("O", 1, vrt.Param("maxo")))
	we, be := elems("w", O), elems("b", O)
	fc, ok := newFC(mode, F, O, we, be)
	if !ok {
		return
	}
	// the Weights() pointers are obtained ONCE, before any Forward, and used for every later access
	// and replacement: they must keep addressing the tensors the layer uses
	ws := fc.Weights()
	tx := vrt.Bool("tx")
	x, xe := mk("x", []int{B, F}, tx)
	y, err := fc.Forward(x)
	vrt.Assert("valid input accepted", err == nil)
	if err != nil || y == nil {
		return
	}
	rows := make([]float64, B) // sum over features of each input row
	for b := 0; b < B; b++ {
		s := 0.
		for d := 0; d < F; d++ {
			s += xe[b*F+d]
		}
		rows[b] = s
	}
	want := make([]float64, B*O)
	for b := 0; b < B; b++ {
		for o := 0; o < O; o++ {
			want[b*O+o] = we[o]*rows[b] + be[o]
		}
	}
	checkTensor("FC forward y[b][o] = W[o]*sum_d x[b][d] + B[o]", y, []int{B, O}, want)

	ge, ok := backThrough(y)
	if !ok {
		return
	}
	gw, gb := zeros(O), zeros(O)
	gx := zeros(B * F)
	for b := 0; b < B; b++ {
		for o := 0; o < O; o++ {
			g := ge[b*O+o]
			gw[o] += g * rows[b]
			gb[o] += g
			for d := 0; d < F; d++ {
				gx[b*F+d] += g * we[o]
			}
		}
	}
	if vrt.Known("bcast_backward_mean") {
		// deviation: W and B are broadcast over the batch; their gradients are batch means
		for o := 0; o < O; o++ {
			gw[o] = gw[o] / float64(B)
			gb[o] = gb[o] / float64(B)
		}
	}
	checkGrad("FC d/dW", *ws[0].Value, true, []int{O}, gw)
	checkGrad("FC d/dB", *ws[1].Value, true, []int{O}, gb)
	checkGrad("FC d/dx", x, tx, []int{B, F}, gx)

	// any sequence of replacements through the Weights() pointers followed by Forward: replace again,
	// through the pointers obtained BEFORE the last Forward, and evaluate once more
	we2, be2 := elems("w2", O), elems("b2", O)
	if vrt.ParamOr("repl", 0) == 1 {
		// the way a training loop replaces them: computed from the spent (back-propagated) parameter,
		// then reset to a fresh tracked leaf
		for i, e2 := range [][]float64{we2, be2} {
			old := *ws[i].Value
			oe := vrt.Flat(old)
			diff := make([]float64, O)
			for o := range diff {
				diff[o] = e2[o] - oe[o]
			}
			nw, err := old.Add(fromFlat(diff, []int{O}, false))
			if err != nil {
				vrt.Assume(false)
			}
			nw.ResetGradContext(true)
			*ws[i].Value = nw
		}
	} else {
		*ws[0].Value = fromFlat(we2, []int{O}, true)
		*ws[1].Value = fromFlat(be2, []int{O}, true)
	}
	B1 := B
	B = vrt.Concretize(vrt.Int("B2", 1, vrt.Param("maxb"))) // the second batch has its own size
	_ = B1
	x2, xe2 := mk("x2", []int{B, F}, false)
	y2, err := fc.Forward(x2)
	vrt.Assert("Forward after replacement accepted", err == nil)
	if err != nil || y2 == nil {
		return
	}
	want2 := make([]float64, B*O)
	rows2 := make([]float64, B)
	for b := 0; b < B; b++ {
		for d := 0; d < F; d++ {
			rows2[b] += xe2[b*F+d]
		}
		for o := 0; o < O; o++ {
			want2[b*O+o] = we2[o]*rows2[b] + be2[o]
		}
	}
	checkTensor("Forward uses the tensors currently behind the Weights() pointers", y2, []int{B, O}, want2)
	ge2, ok := backThrough(y2)
	if !ok {
		return
	}
	gw2, gb2 := zeros(O), zeros(O)
	for b := 0; b < B; b++ {
		for o := 0; o < O; o++ {
			gw2[o] += ge2[b*O+o] * rows2[b]
			gb2[o] += ge2[b*O+o]
		}
	}
	if vrt.Known("bcast_backward_mean") {
		for o := 0; o < O; o++ {
			gw2[o] = gw2[o] / float64(B)
			gb2[o] = gb2[o] / float64(B)
		}
	}
	checkGrad("FC d/dW after replacement", *ws[0].Value, true, []int{O}, gw2)
	checkGrad("FC d/dB after replacement", *ws[1].Value, true, []int{O}, gb2)
	vrt.Reach("done")
}

func H_C17_update() {
	r := vrt.Param("rank")
	dims := symDims("d", r, vrt.Param("maxdim"))
	concDims(dims)
	var opt *optimizers.SGD
	lr := 0.01
	if vrt.Param("nilconf") == 1 {
		opt = optimizers.NewSGD(nil)
	} else {
		lr = vrt.Float("lr")
		opt = optimizers.NewSGD(&optimizers.SGDConfig{LearningRate: lr})
	}
	w, we := mk("w", dims, true)
	// gradient from a real back-propagation: two paths w*c and w*e, so g = c + e (arbitrary)
	c, ce := mk("c", dims, false)
	e, ee := mk("e", dims, false)
	p1, err1 := w.Mul(c)
	p2, err2 := w.Mul(e)
	if err1 != nil || err2 != nil {
		vrt.Assert("graph construction accepted", false)
		return
	}
	root, err := p1.Add(p2)
	if err != nil {
		vrt.Assert("graph construction accepted", false)
		return
	}
	// a second graph over the same leaf, built before any back-propagation (its gradient adds up later)
	h, he := mk("h", dims, false)
	root2, err := w.Mul(h)
	if err != nil {
		vrt.Assert("graph construction accepted", false)
		return
	}
	if !backprop("sgd", root) {
		return
	}
	old := w
	oldGrad := w.Gradient()
	if oldGrad == nil {
		vrt.Assert("weight has a gradient after back-propagation", false)
		return
	}
	ge := make([]float64, len(we))
	for k := range ge {
		ge[k] = ce[k] + ee[k]
	}
	ptr := w
	uerr := opt.Update(&ptr)
	vrt.Assert("update of a tensor with a gradient succeeds", uerr == nil)
	if uerr != nil || ptr == nil {
		return
	}
	want := make([]float64, len(we))
	for k := range want {
		want[k] = we[k] - lr*ge[k]
	}
	checkTensor("SGD w - lr*g", ptr, dims, want)
	scale := make([]float64, len(want))
	for k := range scale {
		scale[k] = absF(we[k]) + absF(lr*ge[k])
	}
	checkTensorS("SGD w - lr*g (at the magnitude of the operands)", ptr, dims, want, scale)
	vrt.Assert("the pointer addresses a new tensor", ptr != old)
	checkTensor("previous tensor unchanged", old, dims, we)
	vrt.Assert("previous tensor keeps its gradient object", old.Gradient() == oldGrad)
	checkTensor("previous gradient unchanged", oldGrad, dims, ge)
	// the same tensor object stepped again after its gradient changed: the CURRENT gradient counts
	if !backprop("sgd second graph", root2) {
		return
	}
	ptr2 := w
	uerr = opt.Update(&ptr2)
	vrt.Assert("second update of the same tensor succeeds", uerr == nil)
	if uerr != nil || ptr2 == nil {
		return
	}
	want2 := make([]float64, len(we))
	for k := range want2 {
		want2[k] = we[k] - lr*(ge[k]+he[k])
	}
	checkTensor("SGD uses the tensor's current gradient on every call", ptr2, dims, want2)
	vrt.Reach("done")
}

func H_C17_errors() {
	opt := optimizers.NewSGD(&optimizers.SGDConfig{LearningRate: vrt.Float("lr")})
	// nil pointer
	var e1 error
	p1 := vrt.Try(func() { e1 = opt.Update(nil) })
	vrt.Assert("nil pointer: no panic", !p1)
	vrt.Assert("nil pointer: error", e1 != nil)
	// nil tensor
	var nilT T
	var e2 error
	p2 := vrt.Try(func() { e2 = opt.Update(&nilT) })
	vrt.Assert("nil tensor: no panic", !p2)
	vrt.Assert("nil tensor: error", e2 != nil)
	vrt.Assert("nil tensor: pointee untouched", nilT == nil)
	// no gradient
	w, we := mk("w", []int{2}, vrt.Bool("tracked"))
	keep := w
	var e3 error
	p3 := vrt.Try(func() { e3 = opt.Update(&w) })
	vrt.Assert("no gradient: no panic", !p3)
	vrt.Assert("no gradient: error", e3 != nil)
	vrt.Assert("no gradient: pointee untouched", w == keep)
	checkTensor("no gradient: tensor unchanged", keep, []int{2}, we)
	vrt.Reach("done")
}

// bigTensor: a tensor of the given (large) shape whose elements are fixed small numbers except the first
// two, every 509th and the last nine, which are solver-chosen.
func bigTensor(name string, dims []int, tracked bool) (T, []float64) {
	n := numel(dims)
	e := make([]float64, n)
	for k := range e {
		if k >= n-9 || k < 2 || k%509 == 0 {
			e[k] = vrt.Float(name, k)
		} else {
			e[k] = float64(k%7-3) / 4
		}
	}
	return fromFlat(e, dims, tracked), e
}

// H_C17_big: one SGD step on parameters of thousands of elements (code paths that exist only above a
// size threshold: chunked or parallel element-wise kernels): every element, the trailing rows included,
// becomes w - lr*g; the old tensor and its gradient are untouched.
func H_C17_big() {
	dims := []int{vrt.Param("n0")}
	if n1 := vrt.ParamOr("n1", 0); n1 > 0 {
		dims = append(dims, n1)
	}
	if n2 := vrt.ParamOr("n2", 0); n2 > 0 {
		dims = append(dims, n2)
	}
	lr := vrt.Float("lr")
	opt := optimizers.NewSGD(&optimizers.SGDConfig{LearningRate: lr})
	w, we := bigTensor("w", dims, true)
	c, ce := bigTensor("c", dims, false)
	root, err := w.Mul(c)
	if err != nil {
		vrt.Assert("graph construction accepted", false)
		return
	}
	if !backprop("sgd big", root) {
		return
	}
	old := w
	oldGrad := w.Gradient()
	if oldGrad == nil {
		vrt.Assert("weight has a gradient after back-propagation", false)
		return
	}
	ptr := w
	uerr := opt.Update(&ptr)
	vrt.Assert("update of a tensor with a gradient succeeds", uerr == nil)
	if uerr != nil || ptr == nil {
		return
	}
	want := make([]float64, len(we))
	for k := range want {
		want[k] = we[k] - lr*ce[k]
	}
	checkTensor("SGD w - lr*g on a large parameter", ptr, dims, want)
	vrt.Assert("the pointer addresses a new tensor", ptr != old)
	checkTensor("previous large tensor unchanged", old, dims, we)
	checkTensor("previous large gradient unchanged", oldGrad, dims, ce)
	vrt.Reach("done")
}
