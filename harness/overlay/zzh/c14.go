package zzh

import (
	"math"

	"github.com/sahandsafizadeh/qeep/component/layers/activations"
	vrt "github.com/sahandsafizadeh/qeep/zzvrt"
)

/* C14 — activations compute their defining function; C15 — their gradients are its derivative. */

type actSpec struct {
	name string
	m    float64 // LeakyRelu slope
	dim  int     // Softmax dimension
}

// buildAct constructs the activation; conf=0 means a nil config (defaults).
func buildAct(name string, rank int) (fwd func(T) (T, error), sp actSpec, ok bool) {
	sp = actSpec{name: name}
	// other instances with other configurations exist: a layer's behaviour depends on its own config only
	activations.NewLeakyRelu(&activations.LeakyReluConfig{M: 7})
	activations.NewSoftmax(&activations.SoftmaxConfig{Dim: 1})
	activations.NewSoftmax(&activations.SoftmaxConfig{Dim: -1})
	nilConf := vrt.Param("nilconf") == 1
	switch name {
	case "Relu":
		a := activations.NewRelu()
		return func(x T) (T, error) { return a.Forward(x) }, sp, true
	case "LeakyRelu":
		var a *activations.LeakyRelu
		if nilConf {
			sp.m = 0.01
			a = activations.NewLeakyRelu(nil)
		} else {
			sp.m = vrt.Float("m")
			a = activations.NewLeakyRelu(&activations.LeakyReluConfig{M: sp.m})
		}
		return func(x T) (T, error) { return a.Forward(x) }, sp, true
	case "Sigmoid":
		a := activations.NewSigmoid()
		return func(x T) (T, error) { return a.Forward(x) }, sp, true
	case "Tanh":
		a := activations.NewTanh()
		return func(x T) (T, error) { return a.Forward(x) }, sp, true
	case "Softmax":
		var a *activations.Softmax
		var err error
		if nilConf {
			sp.dim = 0
			a, err = activations.NewSoftmax(nil)
		} else {
			sp.dim = vrt.Concretize(vrt.Int("dim", 0, rank-1))
			a, err = activations.NewSoftmax(&activations.SoftmaxConfig{Dim: sp.dim})
		}
		vrt.Assert("valid Softmax config accepted", err == nil)
		if err != nil {
			return nil, sp, false
		}
		return func(x T) (T, error) { return a.Forward(x) }, sp, true
	}
	vrt.Assert("harness: unknown activation", false)
	return nil, sp, false
}

// fibresAlong lists, for every position off dim, the flat indexes of its fibre along dim.
func fibresAlong(dims []int, dim int) [][]int {
	r := len(dims)
	odims := make([]int, 0, r)
	odims = append(odims, dims[:dim]...)
	odims = append(odims, dims[dim+1:]...)
	no := numel(odims)
	fib := make([][]int, no)
	oidx := make([]int, r-1)
	idx := make([]int, r)
	for k := 0; k < no; k++ {
		unravel(k, odims, oidx)
		copy(idx[:dim], oidx[:dim])
		copy(idx[dim+1:], oidx[dim:])
		fib[k] = make([]int, dims[dim])
		for j := range fib[k] {
			idx[dim] = j
			fib[k][j] = ravel(idx, dims)
		}
	}
	return fib
}

func H_C14_act() {
	name := vrt.SParam("act")
	r := vrt.Param("rank")
	dims := symDims("d", r, vrt.Param("maxdim"))
	concDims(dims)
	fwd, sp, ok := buildAct(name, r)
	if !ok {
		return
	}
	x, xe := mk("x", dims, vrt.Bool("tracked"))
	y, err := fwd(x)
	vrt.Assert("valid input accepted", err == nil)
	if err != nil || y == nil {
		return
	}
	if !sameDims(vrt.Dims(y), dims) {
		vrt.Assert("activation keeps the input's shape", false)
		return
	}
	f := vrt.Flat(y)
	if len(f) != len(xe) {
		vrt.Assert("element count", false)
		return
	}
	switch name {
	case "Relu":
		for k, v := range xe {
			vrt.AssertEqF("Relu = max(0,x)", f[k], vrt.IteF(v > 0, v, 0))
		}
	case "LeakyRelu":
		for k, v := range xe {
			vrt.AssertEqF("LeakyRelu = max(0,x) + m*min(0,x)", f[k], vrt.IteF(v > 0, v, 0)+sp.m*vrt.IteF(v < 0, v, 0))
		}
	case "Sigmoid":
		for k, v := range xe {
			vrt.AssertFinite("Sigmoid finite", f[k])
			vrt.AssertEqF("Sigmoid = 1/(1+e^-x)", f[k], 1/(1+math.Exp(-v)))
		}
	case "Tanh":
		for k, v := range xe {
			vrt.AssertEqF("Tanh", f[k], math.Tanh(v))
		}
	case "Softmax":
		for _, fib := range fibresAlong(dims, sp.dim) {
			s, tot := 0., 0.
			for _, k := range fib {
				s += math.Exp(xe[k])
			}
			for _, k := range fib {
				vrt.AssertFinite("Softmax finite", f[k])
				vrt.AssertEqF("Softmax = e^x / sum e^x along dim", f[k], math.Exp(xe[k])/s)
				vrt.Assert("Softmax is non-negative", f[k] >= 0)
				tot += f[k]
			}
			vrt.AssertEqF("Softmax sums to 1 along dim", tot, 1)
		}
	}
	vrt.Reach("done")
}

// H_C14_reuse: one activation object applied to two inputs of independently chosen shapes.
func H_C14_reuse() {
	name := vrt.SParam("act")
	fwd, sp, ok := buildAct(name, 1)
	if !ok {
		return
	}
	for call := 0; call < 2; call++ {
		r := vrt.Concretize(vrt.Int(vrt.Nm("rank", call), 1, vrt.Param("maxrank")))
		dims := symDims(vrt.Nm("d", call), r, vrt.Param("maxdim"))
		concDims(dims)
		x, xe := mk(vrt.Nm("x", call), dims, vrt.Bool(vrt.Nm("tr", call)))
		y, err := fwd(x)
		vrt.Assert("valid input accepted on every call of a reused activation", err == nil)
		if err != nil || y == nil {
			return
		}
		if !sameDims(vrt.Dims(y), dims) {
			vrt.Assert("activation keeps the input's shape", false)
			return
		}
		f := vrt.Flat(y)
		switch name {
		case "Relu":
			for k, v := range xe {
				vrt.AssertEqF("Relu (reused)", f[k], vrt.IteF(v > 0, v, 0))
			}
		case "LeakyRelu":
			for k, v := range xe {
				vrt.AssertEqF("LeakyRelu (reused)", f[k], vrt.IteF(v > 0, v, 0)+sp.m*vrt.IteF(v < 0, v, 0))
			}
		case "Sigmoid":
			for k, v := range xe {
				vrt.AssertEqF("Sigmoid (reused)", f[k], 1/(1+math.Exp(-v)))
			}
		case "Tanh":
			for k, v := range xe {
				vrt.AssertEqF("Tanh (reused)", f[k], math.Tanh(v))
			}
		case "Softmax":
			for _, fib := range fibresAlong(dims, sp.dim) {
				s := 0.
				for _, k := range fib {
					s += math.Exp(xe[k])
				}
				for _, k := range fib {
					vrt.AssertEqF("Softmax (reused)", f[k], math.Exp(xe[k])/s)
				}
			}
		}
	}
	vrt.Reach("done")
}

func zeroOrFar(v float64) {
	vrt.Assume(vrt.Or(v == 0, vrt.Or(v > 1e-200, v < -1e-200)))
}

func between(label string, got, a, b float64) {
	lo, hi := vrt.IteF(a <= b, a, b), vrt.IteF(a <= b, b, a)
	vrt.Assert(label, vrt.And(got >= lo, got <= hi))
}

func H_C15_actgrad() {
	name := vrt.SParam("act")
	upstream := vrt.Param("upstream")
	r := vrt.Param("rank")
	dims := symDims("d", r, vrt.Param("maxdim"))
	concDims(dims)
	n := numel(dims)
	fwd, sp, ok := buildAct(name, r)
	if !ok {
		return
	}
	var x, u, v T
	var xe, ue, ve []float64
	if upstream == 0 {
		x, xe = mk("x", dims, true)
	} else {
		u, ue = mk("u", dims, true)
		v, ve = mk("v", dims, true)
		var err error
		x, err = u.Mul(v)
		vrt.Assert("upstream product accepted", err == nil)
		if err != nil {
			return
		}
		xe = make([]float64, n)
		for k := range xe {
			xe[k] = ue[k] * ve[k]
		}
	}
	if name == "Relu" || name == "LeakyRelu" {
		for k := range xe {
			zeroOrFar(xe[k]) // exactly 0, or apart from 0 by more than the library's tie tolerance
		}
	}
	warmUp(dims, false, fwd)
	y, err := fwd(x)
	vrt.Assert("valid input accepted", err == nil)
	if err != nil || y == nil {
		return
	}
	ge, ok := backThroughFan(y, vrt.Param("fan"))
	if !ok {
		return
	}
	gx := x.Gradient()
	if gx == nil {
		vrt.Assert("activation input receives a gradient", false)
		return
	}
	if !sameDims(vrt.Dims(gx), dims) {
		vrt.Assert("gradient has the input's shape", false)
		return
	}
	f := vrt.Flat(gx)
	want := make([]float64, n)
	exact := make([]bool, n)
	for k := range exact {
		exact[k] = true
	}
	switch name {
	case "Relu", "LeakyRelu":
		m := 0.
		if name == "LeakyRelu" {
			m = sp.m
		}
		for k := range xe {
			vrt.AssertFinite(name+" gradient finite", f[k])
			hi, lo := ge[k], m*ge[k]
			// one assertion per element, assembled without branching (2^n paths otherwise):
			//   x != 0: the one-sided derivative;  x == 0: anything between the two one-sided derivatives
			exact[k] = false
			away := vrt.CloseF(f[k], vrt.IteF(xe[k] > 0, hi, lo))
			mn, mx := vrt.IteF(lo <= hi, lo, hi), vrt.IteF(lo <= hi, hi, lo)
			atZero := vrt.And(f[k] >= mn, f[k] <= mx)
			vrt.Assert(name+" gradient: one-sided derivative away from 0, between them at 0",
				vrt.Or(vrt.And(xe[k] != 0, away), vrt.And(xe[k] == 0, atZero)))
			want[k] = f[k]
		}
	case "Sigmoid":
		for k := range xe {
			s := 1 / (1 + math.Exp(-xe[k]))
			want[k] = ge[k] * s * (1 - s)
		}
	case "Tanh":
		for k := range xe {
			t := math.Tanh(xe[k])
			want[k] = ge[k] * (1 - t*t)
		}
	case "Softmax":
		for _, fib := range fibresAlong(dims, sp.dim) {
			s := 0.
			for _, k := range fib {
				s += math.Exp(xe[k])
			}
			if vrt.Known("bcast_backward_mean") {
				// deviation: the normaliser's gradient is averaged over the expanded dimension
				acc := 0.
				for _, j := range fib {
					acc += -ge[j] * math.Exp(xe[j]) / (s * s)
				}
				acc = acc / float64(len(fib))
				for _, k := range fib {
					want[k] = (ge[k]/s + acc) * math.Exp(xe[k])
				}
			} else {
				dot := 0.
				for _, j := range fib {
					dot += math.Exp(xe[j]) / s * ge[j]
				}
				for _, k := range fib {
					want[k] = math.Exp(xe[k]) / s * (ge[k] - dot)
				}
			}
		}
	}
	for k := range f {
		vrt.AssertFinite(name+" gradient finite", f[k])
		if exact[k] {
			vrt.AssertEqF(name+" gradient = upstream * derivative", f[k], want[k])
		}
	}
	if upstream == 1 {
		gu, gv := make([]float64, n), make([]float64, n)
		for k := range f {
			gu[k] = f[k] * ve[k]
			gv[k] = f[k] * ue[k]
		}
		checkGrad(name+" chain d/du", u, true, dims, gu)
		checkGrad(name+" chain d/dv", v, true, dims, gv)
	}
	vrt.Reach("done")
}
