package zzh

import (
	"slices"
	"strings"
	"sync"
	"sync/atomic"

	vrt "github.com/sahandsafizadeh/qeep/zzvrt"
)

// H_SELF_gor exercises the executor's goroutine / channel / sync model (engine self-test, no property).
func H_SELF_gor() {
	x := vrt.Float("x")
	n := 6
	// 1. fork-join over disjoint cells
	out := make([]float64, n)
	var wg sync.WaitGroup
	for i := 0; i < n; i++ {
		wg.Add(1)
		go func(i int) {
			defer wg.Done()
			out[i] = x * float64(i)
		}(i)
	}
	wg.Wait()
	for i := 0; i < n; i++ {
		vrt.AssertEqF("fork-join cell", out[i], x*float64(i))
	}
	// 2. worker pool over channels, results through a mutex-protected sum and an atomic counter
	jobs := make(chan int)
	res := make(chan float64, n)
	var mu sync.Mutex
	var cnt int64
	total := 0.0
	var wg2 sync.WaitGroup
	for w := 0; w < 3; w++ {
		wg2.Add(1)
		go func() {
			defer wg2.Done()
			for j := range jobs {
				v := x + float64(j)
				mu.Lock()
				total += v
				mu.Unlock()
				atomic.AddInt64(&cnt, 1)
				res <- v
			}
		}()
	}
	for j := 0; j < n; j++ {
		jobs <- j
	}
	close(jobs)
	wg2.Wait()
	close(res)
	sum := 0.0
	k := 0
	for v := range res {
		sum += v
		k++
	}
	vrt.Assert("all results arrived", k == n && atomic.LoadInt64(&cnt) == int64(n))
	vrt.AssertEqF("sum over channel", sum, 6*x+15)
	vrt.AssertEqF("sum under mutex", total, 6*x+15)
	// 3. select with default and a done channel
	done := make(chan struct{})
	got := 0
	select {
	case <-done:
		got = 1
	default:
		got = 2
	}
	go func() { close(done) }()
	select {
	case <-done:
		got += 10
	}
	vrt.Assert("select", got == 12)
	// 4. strings.Builder
	var sb strings.Builder
	sb.WriteString("a")
	sb.WriteByte('b')
	sb.WriteString(strings.Join([]string{"c", "d"}, "-"))
	vrt.Assert("builder", sb.String() == "abc-d" && sb.Len() == 5)
	vrt.Reach("done")
}

// H_SELF_deadlock: every goroutine blocked -> inconclusive (unsupported), not a violation.
func H_SELF_deadlock() {
	c := make(chan int)
	<-c
	vrt.Reach("done")
}

// H_SELF_maps: range over maps (insertion order), delete, range over strings.
func H_SELF_maps() {
	x := vrt.Float("x")
	m := map[string]float64{}
	m["a"] = x
	m["b"] = 2 * x
	m["c"] = 3 * x
	delete(m, "b")
	m["d"] = 4 * x
	sum := 0.0
	keys := ""
	for k, v := range m {
		sum += v
		keys += k
	}
	vrt.AssertEqF("map range sum", sum, 8*x)
	vrt.Assert("map range visits every live key once", len(keys) == 3 && len(m) == 3)
	n := 0
	for range "héllo" {
		n++
	}
	vrt.Assert("string range counts runes", n == 5)
	cnt := map[*int]int{}
	p, q := new(int), new(int)
	cnt[p]++
	cnt[q] += 2
	cnt[p]++
	tot := 0
	for _, c := range cnt {
		tot += c
	}
	vrt.Assert("pointer-keyed map", tot == 4 && cnt[p] == 2)
	vrt.Reach("done")
}

var selfTable = map[string]func(float64) float64{}
var selfErr = errNew("sentinel")

func errNew(s string) error { return &selfError{s} }

type selfError struct{ s string }

func (e *selfError) Error() string { return e.s }

func init() {
	for _, k := range []string{"double", "neg"} {
		k := k
		selfTable[k] = func(x float64) float64 {
			if k == "double" {
				return 2 * x
			}
			return -x
		}
	}
}

// H_SELF_init: package-level initialisers and init functions of the module under test are executed.
func H_SELF_init() {
	x := vrt.Float("x")
	vrt.Assert("package-level table was built by init", len(selfTable) == 2 && selfTable["double"] != nil)
	vrt.AssertEqF("closure from the init-built table", selfTable["double"](x)+selfTable["neg"](x), x)
	vrt.Assert("package-level var with initialiser", selfErr != nil && selfErr.Error() == "sentinel")
	vrt.Reach("done")
}

func selfSafeDiv(a, b int) (q int, err error) {
	defer func() {
		if r := recover(); r != nil {
			q, err = -1, errNew("recovered")
		}
	}()
	return a / b, nil
}

func selfRethrow() (msg string) {
	defer func() {
		if r := recover(); r != nil {
			msg = r.(string)
		}
	}()
	var wg sync.WaitGroup
	var caught any
	wg.Add(1)
	go func() {
		defer wg.Done()
		defer func() { caught = recover() }()
		panic("boom")
	}()
	wg.Wait()
	if caught != nil {
		panic(caught)
	}
	return "none"
}

// H_SELF_recover: deferred calls run while a panic unwinds; recover() stops it; named results survive.
func H_SELF_recover() {
	q, err := selfSafeDiv(7, 0)
	vrt.Assert("recovered division by zero", q == -1 && err != nil)
	q, err = selfSafeDiv(7, 2)
	vrt.Assert("no panic: normal result", q == 3 && err == nil)
	vrt.Assert("worker panic re-raised on the caller and recovered there", selfRethrow() == "boom")
	order := ""
	func() {
		defer func() { order += "a" }()
		defer func() { order += "b" }()
		order += "c"
	}()
	vrt.Assert("defers run LIFO", order == "cba")
	panicked := vrt.Try(func() {
		defer func() { order += "d" }()
		var p *int
		_ = *p
	})
	vrt.Assert("an unrecovered panic still propagates, after its deferred calls", panicked && order == "cbad")
	vrt.Reach("done")
}

// H_SELF_slices: package slices on interpreted slices (Insert / Replace use the overlap test).
func H_SELF_slices() {
	s := []int{1, 2, 5}
	s = slices.Insert(s, 2, 3, 4)
	vrt.Assert("slices.Insert", len(s) == 5 && s[2] == 3 && s[4] == 5)
	s = slices.Insert(s, 1, s[3:]...)
	vrt.Assert("slices.Insert of an overlapping tail", len(s) == 7 && s[1] == 4 && s[2] == 5 && s[3] == 2)
	slices.Reverse(s)
	vrt.Assert("slices.Reverse / Index / Contains", s[0] == 5 && slices.Index(s, 1) == 6 && slices.Contains(s, 4))
	slices.Sort(s)
	vrt.Assert("slices.Sort", slices.IsSorted(s) && slices.Max(s) == 5)
	vrt.Reach("done")
}
