package zzh

import (
	"github.com/sahandsafizadeh/qeep/tensor"
	vrt "github.com/sahandsafizadeh/qeep/zzvrt"
)

/* C01 — back-propagation yields the total derivative on any operation DAG.

   A straight-line tensor program over shape-[2] leaves; op codes and operand indexes are
   solver integers, so every program shape within the bound (fan-out, reconvergence, reuse of
   one tensor as both operands) is explored.  Reference: a reverse-mode tape processed once per
   node in reverse creation order. */

const c01Width = 2

type c01Node struct {
	op      int // -1 leaf, 0 Scale, 1 Add, 2 Sub, 3 Mul, 4 CatSlice: concat(a,b)[1:3] = (a[1], b[0])
	a, b    int
	c       float64
	tracked bool
	val     []float64
}

// c01Build draws a program of K steps over L leaves and builds it with the real API.
// tag distinguishes several graphs over the same leaves.
func c01Build(tag string, leaves []T, nodes []c01Node, K int) ([]T, []c01Node) {
	ts := append([]T{}, leaves...)
	ns := append([]c01Node{}, nodes...)
	for s := 0; s < K; s++ {
		n := len(ts)
		op := vrt.Concretize(vrt.Int(vrt.Nm(tag+"op", s), 0, 5))
		switch vrt.Param("ops") {
		case 0:
			vrt.Assume(op <= 3) // the ring {Scale, Add, Sub, Mul}
		case 1:
			vrt.Assume(op == 1 || op == 3) // reduced alphabet {Add, Mul} for the longest programs
		}
		a := vrt.Concretize(vrt.Int(vrt.Nm(tag+"a", s), 0, n-1))
		b := a
		if op != 0 && op != 5 {
			b = vrt.Concretize(vrt.Int(vrt.Nm(tag+"b", s), 0, n-1))
			if (op == 1 || op == 3) && vrt.Param("ops") == 1 {
				vrt.Assume(a <= b) // longest programs only: one operand order of the commutative ops
			}
		}
		nd := c01Node{op: op, a: a, b: b, val: make([]float64, c01Width)}
		var y T
		var err error
		switch op {
		case 5:
			// identity-shaped explicit Broadcast: a distinct tensor with the same values (y = 1*x)
			nd.op, nd.c = 0, 1
			y, err = ts[a].Broadcast([]int{c01Width})
			copy(nd.val, ns[a].val)
			nd.tracked = ns[a].tracked
		case 0:
			nd.c = vrt.Float(vrt.Nm(tag+"c", s))
			y = ts[a].Scale(nd.c)
			for k := range nd.val {
				nd.val[k] = nd.c * ns[a].val[k]
			}
			nd.tracked = ns[a].tracked
		case 1:
			y, err = ts[a].Add(ts[b])
			for k := range nd.val {
				nd.val[k] = ns[a].val[k] + ns[b].val[k]
			}
		case 2:
			y, err = ts[a].Sub(ts[b])
			for k := range nd.val {
				nd.val[k] = ns[a].val[k] - ns[b].val[k]
			}
		case 3:
			y, err = ts[a].Mul(ts[b])
			for k := range nd.val {
				nd.val[k] = ns[a].val[k] * ns[b].val[k]
			}
		case 4:
			// an op whose operands reach the backward edges directly (no implicit Broadcast copy)
			var c T
			c, err = tensor.Concat([]T{ts[a], ts[b]}, 0)
			if err == nil {
				y, err = c.Slice([]tensor.Range{{From: 1, To: 3}})
			}
			nd.val[0], nd.val[1] = ns[a].val[1], ns[b].val[0]
		}
		if op != 0 && op != 5 {
			nd.tracked = vrt.Or(ns[a].tracked, ns[b].tracked)
		}
		vrt.Assert("forward op accepted", err == nil)
		if err != nil || y == nil {
			vrt.Assume(false)
		}
		ts = append(ts, y)
		ns = append(ns, nd)
	}
	return ts, ns
}

// c01Tape computes the adjoint of every node for d(sum of root)/d(node); nil = not reached.
func c01Tape(ns []c01Node, root int) ([][]float64, []bool) {
	adj := make([][]float64, len(ns))
	has := make([]bool, len(ns))
	for i := range adj {
		adj[i] = make([]float64, c01Width)
	}
	if !ns[root].tracked {
		return adj, has
	}
	has[root] = true
	for k := 0; k < c01Width; k++ {
		adj[root][k] = 1
	}
	for i := len(ns) - 1; i >= 0; i-- {
		nd := ns[i]
		if !has[i] || nd.op < 0 {
			continue
		}
		for k := 0; k < c01Width; k++ {
			g := adj[i][k]
			switch nd.op {
			case 0:
				if ns[nd.a].tracked {
					adj[nd.a][k] += nd.c * g
				}
			case 1:
				if ns[nd.a].tracked {
					adj[nd.a][k] += g
				}
				if ns[nd.b].tracked {
					adj[nd.b][k] += g
				}
			case 2:
				if ns[nd.a].tracked {
					adj[nd.a][k] += g
				}
				if ns[nd.b].tracked {
					adj[nd.b][k] -= g
				}
			case 3:
				if ns[nd.a].tracked {
					adj[nd.a][k] += g * ns[nd.b].val[k]
				}
				if ns[nd.b].tracked {
					adj[nd.b][k] += g * ns[nd.a].val[k]
				}
			case 4:
				if k == 0 && ns[nd.a].tracked {
					adj[nd.a][1] += g
				}
				if k == 1 && ns[nd.b].tracked {
					adj[nd.b][0] += g
				}
			}
		}
		if ns[nd.a].tracked {
			has[nd.a] = true
		}
		if nd.op != 0 && ns[nd.b].tracked {
			has[nd.b] = true
		}
	}
	return adj, has
}

func c01Leaves(L int) ([]T, []c01Node) {
	ts := make([]T, L)
	ns := make([]c01Node, L)
	for i := 0; i < L; i++ {
		tr := vrt.Bool(vrt.Nm("tr", i))
		if i == 0 {
			tr = true // at least one tracked leaf (all-untracked graphs are C08's subject)
		}
		var e []float64
		ts[i], e = mk(vrt.Nm("x", i), []int{c01Width}, tr)
		ns[i] = c01Node{op: -1, tracked: tr, val: e}
	}
	return ts, ns
}

func c01Check(label string, ts []T, ns []c01Node, adj [][]float64, has []bool) {
	for i := range ts {
		g := ts[i].Gradient()
		if !has[i] {
			vrt.Assert(label+": no gradient outside the tracked ancestors of the root", g == nil)
			continue
		}
		if g == nil {
			vrt.Assert(label+": every tracked ancestor of the root receives a gradient", false)
			continue
		}
		if !sameDims(vrt.Dims(g), []int{c01Width}) {
			vrt.Assert(label+": gradient has the tensor's shape", false)
			continue
		}
		f := vrt.Flat(g)
		for k := range f {
			vrt.AssertEqF(label+": gradient is the total derivative", f[k], adj[i][k])
		}
	}
}

func backprop(label string, root T) bool {
	var err error
	panicked := vrt.Try(func() { err = tensor.BackPropagate(root) })
	vrt.Assert(label+": back-propagation does not panic", !panicked)
	if panicked {
		return false
	}
	vrt.Assert(label+": back-propagation succeeds", err == nil)
	return err == nil
}

func H_C01_dag() {
	L, K := vrt.Param("leaves"), vrt.Param("steps")
	leaves, lnodes := c01Leaves(L)
	ts, ns := c01Build("", leaves, lnodes, K)
	root := len(ts) - 1
	if vrt.Param("rootlast") == 0 {
		root = vrt.Concretize(vrt.Int("root", 0, len(ts)-1))
	}
	vrt.ClosureCallsReset()
	if !backprop("dag", ts[root]) {
		return
	}
	adj, has := c01Tape(ns, root)
	c01Check("dag", ts, ns, adj, has)
	vrt.Assert("every backward rule is applied a bounded number of times (<= 2) per back-propagation", vrt.ClosureCallsMax("gradtrack") <= 2)
	vrt.Reach("done")
}

// H_C01_accum: two graphs over the same leaves (disjoint interiors), two back-propagations:
// the leaves hold the sum of both adjoints.
func H_C01_accum() {
	L, K := vrt.Param("leaves"), vrt.Param("steps")
	leaves, lnodes := c01Leaves(L)
	ts1, ns1 := c01Build("p", leaves, lnodes, K)
	ts2, ns2 := c01Build("q", leaves, lnodes, K)
	r1 := vrt.Concretize(vrt.Int("root1", L, len(ts1)-1))
	r2 := vrt.Concretize(vrt.Int("root2", L, len(ts2)-1))
	if !backprop("first graph", ts1[r1]) {
		return
	}
	if !backprop("second graph", ts2[r2]) {
		return
	}
	adj1, has1 := c01Tape(ns1, r1)
	adj2, has2 := c01Tape(ns2, r2)
	for i := 0; i < L; i++ {
		g := leaves[i].Gradient()
		if !has1[i] && !has2[i] {
			vrt.Assert("accum: untouched leaf has no gradient", g == nil)
			continue
		}
		if g == nil {
			vrt.Assert("accum: shared leaf receives a gradient", false)
			continue
		}
		f := vrt.Flat(g)
		if len(f) != c01Width {
			vrt.Assert("accum: gradient has the leaf's shape", false)
			continue
		}
		for k := range f {
			vrt.AssertEqF("accum: gradients of graphs sharing only leaves add up", f[k], adj1[i][k]+adj2[i][k])
		}
	}
	vrt.Reach("done")
}

// H_C01_seq: a graph is built and back-propagated, THEN a second graph is built over the same
// untracked leaves (and fresh tracked ones) and back-propagated: an earlier back-propagation must not
// disturb tensors it does not own (untracked leaves receive nothing and are not spent).
func H_C01_seq() {
	K := vrt.Param("steps")
	u, ue := mk("u", []int{c01Width}, false) // shared untracked leaf
	var firstLeaf T
	for round := 0; round < 2; round++ {
		x, xe := mk(vrt.Nm("x", round), []int{c01Width}, true) // fresh tracked leaf per round
		if round == 0 {
			firstLeaf = x
		}
		leaves := []T{x, u}
		lnodes := []c01Node{{op: -1, tracked: true, val: xe}, {op: -1, tracked: false, val: ue}}
		// both rounds run the same solver-chosen program shape (same decision names)
		ts, ns := c01Build("p", leaves, lnodes, K)
		root := len(ts) - 1
		if !backprop("sequential graphs", ts[root]) {
			return
		}
		adj, has := c01Tape(ns, root)
		c01Check("sequential graphs", ts, ns, adj, has)
		vrt.Assert("an untracked leaf is never spent by a back-propagation", !vrt.Dirty(u) && u.Gradient() == nil)
	}
	_ = firstLeaf
	vrt.Reach("done")
}

// ladder builds y_{i+1} = y_i*y_i + y_i of the given depth and back-propagates it.
func ladder(depth int, x T) (T, bool) {
	y := x
	for i := 0; i < depth; i++ {
		sq, err := y.Mul(y)
		if err != nil {
			return nil, false
		}
		y, err = sq.Add(y)
		if err != nil {
			return nil, false
		}
	}
	return y, tensor.BackPropagate(y) == nil
}

// doubling builds h_{i+1} = h_i + h_i (both operands the same node: two equal-length paths that
// reconverge at every level) and back-propagates it.
func doubling(depth int, x T) (T, bool) {
	h := x
	for i := 0; i < depth; i++ {
		var err error
		h, err = h.Add(h)
		if err != nil {
			return nil, false
		}
	}
	return h, tensor.BackPropagate(h) == nil
}

// H_C01_work: the work of one back-propagation grows polynomially with graph size.  Symbolically the
// executor's instruction count for depth 2d is compared with the count for depth d (a linear walk at
// most doubles it; an exponential re-walk squares it); natively a depth-40 stack must finish fast.
func H_C01_work() {
	d := vrt.Param("depth")
	work := func(depth int, build func(int, T) (T, bool)) (int, bool) {
		x, _ := mk(vrt.Nm("x", depth), []int{1}, true)
		s0 := vrt.Steps()
		_, ok := build(depth, x)
		return vrt.Steps() - s0, ok
	}
	for _, b := range []func(int, T) (T, bool){doubling, ladder} {
		w1, ok1 := work(d, b)
		w2, ok2 := work(2*d, b)
		vrt.Assert("work: back-propagation succeeds", ok1 && ok2)
		// linear work doubles, quadratic work quadruples; an exponential re-walk multiplies it by 2^d
		vrt.Assert("work: doubling the graph depth multiplies the work by a bounded factor (polynomial, not exponential)", w2 <= 6*w1+5000)
	}
	dx, xe := mk("y", []int{1}, true)
	_ = xe
	var ok bool
	fast := vrt.TimedOK(func() { _, ok = doubling(40, dx) }, 10)
	vrt.Assert("work: a depth-40 stack of equal-length reconvergences back-propagates in polynomial time", fast)
	_ = ok
	vrt.Reach("done")
}

// H_C01_ladder: a deep graph with shared sub-expressions.  Symbolically: gradient value and the
// number of applications of any one backward rule; natively: a depth-22 ladder must finish fast.
func H_C01_ladder() {
	depth := vrt.Param("depth")
	x, xe := mk("x", []int{1}, true)
	vrt.ClosureCallsReset()
	var ok bool
	panicked := vrt.Try(func() { _, ok = ladder(depth, x) })
	vrt.Assert("ladder: back-propagation does not panic", !panicked)
	vrt.Assert("ladder: back-propagation succeeds", ok)
	if panicked || !ok {
		return
	}
	// d/dx of f_depth where f_{i+1} = f_i^2 + f_i : product of (2 f_i + 1)
	v, d := xe[0], 1.
	for i := 0; i < depth; i++ {
		d = d * (2*v + 1)
		v = v*v + v
	}
	g := x.Gradient()
	if g == nil {
		vrt.Assert("ladder: leaf receives a gradient", false)
		return
	}
	vrt.AssertEqF("ladder: gradient is the total derivative", vrt.Flat(g)[0], d)
	vrt.Assert("ladder: every backward rule is applied a bounded number of times", vrt.ClosureCallsMax("gradtrack") <= 2)
	deep, _ := mk("x", []int{1}, true)
	vrt.Assert("ladder: a depth-22 graph back-propagates in time polynomial in its size",
		vrt.TimedOK(func() { ladder(22, deep) }, 10))
	vrt.Reach("done")
}
