// Package zzvrt is the harness runtime.  Under the symbolic executor every
// function here is an intrinsic (the bodies below are never interpreted); compiled
// natively the bodies replay a solver assignment against the real build.
package zzvrt

import (
	"encoding/json"
	"fmt"
	"math"
	"os"
	"reflect"
	"strconv"
	"strings"
	"time"
	"unsafe"
)

type replayFile struct {
	Harness string             `json:"harness"`
	Params  map[string]int     `json:"params"`
	SParams map[string]string  `json:"sparams"`
	Ints    map[string]int     `json:"ints"`
	Bools   map[string]bool    `json:"bools"`
	Floats  map[string]float64 `json:"floats"`
	Known   []string           `json:"known"`
	Seed    int                `json:"seed"`
}

var (
	R        replayFile
	Failures []string
	Reached  []string
	Observed = map[string]float64{}
	Notes    []string
	loaded   bool
)

type AssumeFailed struct{ What string }

func Load() {
	if loaded {
		return
	}
	loaded = true
	p := os.Getenv("VRT_REPLAY")
	if p == "" {
		return
	}
	data, err := os.ReadFile(p)
	if err != nil {
		panic(err)
	}
	if err := json.Unmarshal(data, &R); err != nil {
		panic(err)
	}
}

func ResetRun() {
	Failures, Reached, Notes = nil, nil, nil
	Observed = map[string]float64{}
}

func nameOf(name string, idx []int) string {
	for _, i := range idx {
		name += "_" + strconv.Itoa(i)
	}
	return name
}

// Generic returns the seeded generic-position value for a name: k/1024 in [-3,3].
func Generic(name string, seed int) float64 {
	h := uint64(1469598103934665603)
	s := name + "#" + strconv.Itoa(seed)
	for i := 0; i < len(s); i++ {
		h = (h ^ uint64(s[i])) * 1099511628211
	}
	h ^= h >> 29
	v := float64(h%6145)/1024 - 3
	if seed >= 1000000 {
		// tiny-magnitude stream: the same lattice shrunk to [-3e-9, 3e-9] (absolute thresholds and
		// "rounding noise" floors show up only at small magnitudes)
		return v * 1e-9
	}
	if seed < 0 {
		// extreme-position stream: the same lattice stretched to [-700, 700] (overflow / underflow /
		// cancellation show up only at large magnitudes)
		return v * 700 / 3
	}
	return v
}

func Param(name string) int {
	Load()
	v, ok := R.Params[name]
	if !ok {
		panic("vrt: missing param " + name)
	}
	return v
}

// ParamOr is Param with a default for work items that do not set the parameter.
func ParamOr(name string, def int) int {
	Load()
	if v, ok := R.Params[name]; ok {
		return v
	}
	return def
}

func SParam(name string) string { Load(); return R.SParams[name] }

func Known(key string) bool {
	Load()
	for _, k := range R.Known {
		if k == key {
			return true
		}
	}
	return false
}

func Int(name string, lo, hi int) int {
	Load()
	if v, ok := R.Ints[name]; ok {
		return v
	}
	return lo
}

func AnyInt(name string) int {
	Load()
	return R.Ints[name]
}

func Bool(name string) bool { Load(); return R.Bools[name] }

func Float(name string, idx ...int) float64 {
	Load()
	n := nameOf(name, idx)
	if v, ok := R.Floats[n]; ok {
		return v
	}
	return Generic(n, R.Seed)
}

// FloatN is a nondet float64 that may also be NaN (flag name#def false in the replay).
func FloatN(name string, idx ...int) float64 {
	Load()
	n := nameOf(name, idx)
	if d, ok := R.Bools[n+"#def"]; ok && !d {
		return math.NaN()
	}
	return Float(name, idx...)
}

func IsNaN(x float64) bool { return math.IsNaN(x) }

func Assume(c bool) {
	if !c {
		panic(AssumeFailed{"assume"})
	}
}

func fail(kind, label, detail string) {
	Failures = append(Failures, kind+" "+label+" "+detail)
}

func Assert(label string, c bool) {
	if !c {
		fail("assert", label, "")
	}
}

// Lemma is an assertion whose fact the executor may use afterwards on the same path (cut rule).
func Lemma(label string, c bool) { Assert(label, c) }

// CloseF is float equality as a value (exact under the executor, relative 1e-7 natively), for
// assertions assembled without branching.
func CloseF(a, b float64) bool {
	if math.IsNaN(a) || math.IsNaN(b) || math.IsInf(a, 0) || math.IsInf(b, 0) {
		return false
	}
	return math.Abs(a-b) <= 1e-7*math.Max(1, math.Max(math.Abs(a), math.Abs(b)))
}

// LemmaEqF is AssertEqF whose proven equality the executor uses as a rewrite in later queries.
func LemmaEqF(label string, got, want float64) { AssertEqF(label, got, want) }

func AssertEqF(label string, got, want float64) {
	if math.IsNaN(want) || math.IsInf(want, 0) {
		return // reference undefined here: nothing is required of the implementation
	}
	if math.IsNaN(got) || math.IsInf(got, 0) {
		fail("eq", label, fmt.Sprintf("got=%v want=%v", got, want))
		return
	}
	tol := 1e-7 * math.Max(1, math.Max(math.Abs(got), math.Abs(want)))
	if math.Abs(got-want) > tol {
		fail("eq", label, fmt.Sprintf("got=%v want=%v", got, want))
	}
}

// AssertEqFS is AssertEqF with the magnitude of the reference computation's intermediate values
// supplied by the harness (e.g. |a|+|b| for a-b): natively the tolerance is relative to that scale and
// not to 1, so results of tiny magnitude are compared meaningfully.  Symbolically it is AssertEqF.
func AssertEqFS(label string, got, want, scale float64) {
	if math.IsNaN(want) || math.IsInf(want, 0) || math.IsNaN(scale) {
		return
	}
	if math.IsNaN(got) || math.IsInf(got, 0) {
		fail("eq", label, fmt.Sprintf("got=%v want=%v", got, want))
		return
	}
	tol := 1e-7*math.Max(math.Abs(scale), math.Max(math.Abs(got), math.Abs(want))) + 1e-300
	if math.Abs(got-want) > tol {
		fail("eq", label, fmt.Sprintf("got=%v want=%v (scale %v)", got, want, scale))
	}
}

func AssertFinite(label string, x float64) {
	if math.IsNaN(x) || math.IsInf(x, 0) {
		fail("finite", label, fmt.Sprintf("got=%v", x))
	}
}

func Reach(label string) { Reached = append(Reached, label) }
func Note(s string)      { Notes = append(Notes, s) }

func Try(f func()) (panicked bool) {
	defer func() {
		if r := recover(); r != nil {
			if af, ok := r.(AssumeFailed); ok {
				panic(af)
			}
			panicked = true
			Notes = append(Notes, fmt.Sprintf("caught panic: %v", r))
		}
	}()
	f()
	return false
}

func Observe(label string, x float64, idx ...int) { Observed[nameOf(label, idx)] = x }

func Symbolic() bool { return false }

// Reseeds is the number of times the interpreted code re-seeded a global random source (0 natively).
func Reseeds() int { return 0 }

// Steps is the number of SSA instructions the executor has interpreted so far on this path
// (0 natively): a deterministic work measure for "polynomial time" obligations.
func Steps() int { return 0 }

// Concretize forces the executor to fork on every feasible value of x.
func Concretize(x int) int { return x }

// And / Or are non-short-circuit so that harness predicates do not fork paths.
func And(a, b bool) bool { return a && b }
func Or(a, b bool) bool  { return a || b }

// IteF selects without branching.
func IteF(c bool, a, b float64) float64 {
	if c {
		return a
	}
	return b
}

// IteI selects an int without branching.
func IteI(c bool, a, b int) int {
	if c {
		return a
	}
	return b
}

// Nm builds an indexed nondet name.
func Nm(prefix string, idx ...int) string { return nameOf(prefix, idx) }

func SameTerm(a, b float64) bool { return a == b }

/* ----- reflection over the CPU tensor representation ----- */

func tstruct(t any) reflect.Value {
	v := reflect.ValueOf(t)
	if !v.IsValid() || v.Kind() != reflect.Ptr || v.IsNil() {
		panic("vrt: not a tensor pointer")
	}
	return v.Elem()
}

func flatten(v reflect.Value, out *[]float64) {
	if v.Kind() == reflect.Interface {
		if v.IsNil() {
			panic("vrt.Flat: nil element in tensor data")
		}
		v = v.Elem()
	}
	switch v.Kind() {
	case reflect.Float64:
		*out = append(*out, v.Float())
	case reflect.Slice:
		for i := 0; i < v.Len(); i++ {
			flatten(v.Index(i), out)
		}
	default:
		panic("vrt.Flat: unexpected data kind " + v.Kind().String())
	}
}

// Flat returns the elements in row-major order, read from the representation (not through At).
func Flat(t any) []float64 {
	var out []float64
	flatten(tstruct(t).FieldByName("data"), &out)
	return out
}

func Dims(t any) []int {
	d := tstruct(t).FieldByName("dims")
	out := make([]int, d.Len())
	for i := range out {
		out[i] = int(d.Index(i).Int())
	}
	return out
}

// setRO stores x into a value reached through unexported fields.
func setRO(v reflect.Value, x reflect.Value) {
	reflect.NewAt(v.Type(), unsafe.Pointer(v.UnsafeAddr())).Elem().Set(x)
}

// Abstract replaces every element of the tensor by the nondet value prefix_k (k = row-major index):
// the object, its shape and its grad context stay the ones the real code produced.
func Abstract(t any, prefix string) {
	Load()
	n := 0
	var walk func(v reflect.Value)
	walk = func(v reflect.Value) {
		e := v
		if e.Kind() == reflect.Interface {
			e = e.Elem()
		}
		switch e.Kind() {
		case reflect.Float64:
			setRO(v, reflect.ValueOf(Float(prefix, n)))
			n++
		case reflect.Slice:
			for i := 0; i < e.Len(); i++ {
				walk(e.Index(i))
			}
		default:
			panic("vrt.Abstract: unexpected data kind " + e.Kind().String())
		}
	}
	walk(tstruct(t).FieldByName("data"))
}

func gctx(t any) reflect.Value {
	g := tstruct(t).FieldByName("gctx")
	if g.IsNil() {
		panic("vrt: nil grad context")
	}
	return g.Elem()
}

// IntField / SetIntField read and write an (unexported) int field of *obj found by name, descending
// into embedded structs: the anchored state of a property, without compiling against its layout.
func namedField(obj any, name string) reflect.Value {
	v := reflect.ValueOf(obj)
	for v.Kind() == reflect.Ptr || v.Kind() == reflect.Interface {
		v = v.Elem()
	}
	var find func(v reflect.Value, depth int) reflect.Value
	find = func(v reflect.Value, depth int) reflect.Value {
		if v.Kind() != reflect.Struct || depth > 4 {
			return reflect.Value{}
		}
		if f := v.FieldByName(name); f.IsValid() {
			return f
		}
		return reflect.Value{}
	}
	f := find(v, 0)
	if !f.IsValid() {
		panic("vrt: the harness observes the struct field " + name + ", which this tree does not have")
	}
	return reflect.NewAt(f.Type(), unsafe.Pointer(f.UnsafeAddr())).Elem()
}

func IntField(obj any, name string) int       { return int(namedField(obj, name).Int()) }
func SetIntField(obj any, name string, v int) { namedField(obj, name).SetInt(int64(v)) }

func Tracked(t any) bool { return gctx(t).FieldByName("tracked").Bool() }
func Dirty(t any) bool   { return gctx(t).FieldByName("bpdirty").Bool() }
func NumEdges(t any) int { return gctx(t).FieldByName("backEdges").Len() }

/* ----- monitors that only the executor can observe ----- */

// Footprint: under the executor every store to an object that existed at FootprintBegin is logged
// (exact).  Natively the listed tensors are snapshotted and compared at FootprintEnd (state diff).
// deepSig renders every field of a value (unexported ones included, pointers followed to depth 6,
// the grad context excluded: it is compared field by field) - any hidden state a library keeps in a
// tensor shows up here.
func deepSig(v reflect.Value, depth int, sb *strings.Builder) {
	if depth > 6 {
		sb.WriteString("~")
		return
	}
	switch v.Kind() {
	case reflect.Ptr, reflect.Interface:
		if v.IsNil() {
			sb.WriteString("nil")
			return
		}
		deepSig(v.Elem(), depth+1, sb)
	case reflect.Struct:
		sb.WriteString("{")
		for i := 0; i < v.NumField(); i++ {
			if v.Type().Field(i).Name == "gctx" {
				continue
			}
			sb.WriteString(v.Type().Field(i).Name + ":")
			deepSig(v.Field(i), depth+1, sb)
			sb.WriteString(";")
		}
		sb.WriteString("}")
	case reflect.Slice, reflect.Array:
		if v.Kind() == reflect.Slice {
			fmt.Fprintf(sb, "(%d/%d)", v.Len(), v.Cap())
		}
		sb.WriteString("[")
		for i := 0; i < v.Len(); i++ {
			deepSig(v.Index(i), depth+1, sb)
			sb.WriteString(",")
		}
		sb.WriteString("]")
	case reflect.Map:
		fmt.Fprintf(sb, "map(%d)", v.Len())
	case reflect.Float64, reflect.Float32:
		fmt.Fprintf(sb, "%x", math.Float64bits(v.Float()))
	case reflect.Int, reflect.Int64, reflect.Int32, reflect.Int16, reflect.Int8:
		fmt.Fprintf(sb, "%d", v.Int())
	case reflect.Uint, reflect.Uint64, reflect.Uint32, reflect.Uint16, reflect.Uint8, reflect.Uintptr:
		fmt.Fprintf(sb, "%d", v.Uint())
	case reflect.Bool:
		fmt.Fprintf(sb, "%v", v.Bool())
	case reflect.String:
		sb.WriteString(v.String())
	case reflect.Func:
		if v.IsNil() {
			sb.WriteString("nilfunc")
		} else {
			sb.WriteString("func")
		}
	default:
		sb.WriteString(v.Kind().String())
	}
}

func sigOf(t any) string {
	var sb strings.Builder
	deepSig(tstruct(t), 0, &sb)
	return sb.String()
}

type snap struct {
	sig            string
	t              any
	data           []float64
	dims           []int
	gctx, grad     uintptr
	tracked, dirty bool
	edges          int
}

var snaps [][]snap

func takeSnap(t any) snap {
	g := tstruct(t).FieldByName("gctx")
	s := snap{t: t, sig: sigOf(t), data: Flat(t), dims: Dims(t), gctx: g.Pointer()}
	if !g.IsNil() {
		s.tracked, s.dirty, s.edges = Tracked(t), Dirty(t), NumEdges(t)
		gr := g.Elem().FieldByName("gradient")
		if !gr.IsNil() {
			s.grad = gr.Elem().Pointer()
		}
	}
	return s
}

func FootprintBegin(objs ...any) {
	var ss []snap
	for _, o := range objs {
		if o == nil {
			continue
		}
		v := reflect.ValueOf(o)
		if v.Kind() == reflect.Ptr && !v.IsNil() {
			ss = append(ss, takeSnap(o))
		}
	}
	snaps = append(snaps, ss)
}

func FootprintEnd(allow string) int {
	ss := snaps[len(snaps)-1]
	snaps = snaps[:len(snaps)-1]
	if strings.Contains(allow, "mode=race") {
		// C20: natively only the race detector decides (a properly synchronised cache changes state
		// without racing); the exact store log is the executor's business
		return 0
	}
	onlyMode := strings.Contains(allow, "only=")
	if strings.Contains(allow, "=") {
		al := ""
		for _, part := range strings.Split(allow, ";") {
			if k, v, _ := strings.Cut(part, "="); k == "allow" {
				al = v
			}
		}
		allow = al
	}
	ok := func(tag string) bool { return strings.Contains(","+allow+",", ","+tag+",") }
	n := 0
	for _, s := range ss {
		now := takeSnap(s.t)
		if !reflect.DeepEqual(now.data, s.data) || !reflect.DeepEqual(now.dims, s.dims) {
			n++
		} else if !onlyMode && now.sig != s.sig {
			n++ // some other field of the tensor (hidden state) changed
		}
		if now.gctx != s.gctx {
			if !ok("CPUTensor.gctx") {
				n++
			}
			continue
		}
		if now.grad != s.grad && !ok("GradContext.gradient") {
			n++
		}
		if now.dirty != s.dirty && !ok("GradContext.bpdirty") {
			n++
		}
		if now.tracked != s.tracked || now.edges != s.edges {
			n++
		}
	}
	return n
}

func ClosureCallsReset()                 {}
func ClosureCallsMax(pkg string) int     { return 0 }
func DrawCount() int                     { return -1 }
func DrawKind(i int) int                 { return 0 }
func DrawParam(i int, which int) float64 { return 0 }
func DrawValue(i int) float64            { return 0 }

// TimedOK runs f natively and reports whether it finished within the given number of seconds;
// under the symbolic executor f is not run (the bounded-work monitor ClosureCallsMax decides).
func TimedOK(f func(), seconds int) bool {
	done := make(chan bool, 1)
	go func() {
		defer func() { recover(); done <- true }()
		f()
	}()
	select {
	case <-done:
		return true
	case <-time.After(time.Duration(seconds) * time.Second):
		return false
	}
}

// Concurrently runs f(0..n-1) in n goroutines released together (native replay, under -race); the
// symbolic executor skips it: there the sequential write-footprint decides.
func Concurrently(n int, f func(i int)) {
	start := make(chan struct{})
	done := make(chan any, n)
	for i := 0; i < n; i++ {
		go func(i int) {
			defer func() { done <- recover() }()
			<-start
			f(i)
		}(i)
	}
	close(start)
	for i := 0; i < n; i++ {
		if r := <-done; r != nil {
			fail("assert", "concurrent work does not panic", fmt.Sprint(r))
		}
	}
}

func Summary() string {
	return fmt.Sprintf("failures=%d reached=%s", len(Failures), strings.Join(Reached, ","))
}
