// Package zzv: the validator layer alone at full 64-bit width (integers are bit-vectors with Go's
// wrap-around; arguments are ANY int64, dimension sizes in [1, 2^40]).
package zzv

import (
	"github.com/sahandsafizadeh/qeep/tensor/internal/tensor"
	"github.com/sahandsafizadeh/qeep/tensor/internal/validator"
	vrt "github.com/sahandsafizadeh/qeep/zzvrt"
)

const maxSize = 1 << 40

func anyDims(name string, r int, hi int) []int {
	d := make([]int, r)
	for i := range d {
		d[i] = vrt.AnyInt(vrt.Nm(name, i))
		vrt.Assume(vrt.And(1 <= d[i], d[i] <= hi))
	}
	return d
}

func anyArgs(name string, n int) []int {
	a := make([]int, n)
	for i := range a {
		a[i] = vrt.AnyInt(vrt.Nm(name, i))
	}
	return a
}

func anyIndex(n int) []tensor.Range {
	ix := make([]tensor.Range, n)
	for i := range ix {
		ix[i] = tensor.Range{From: vrt.AnyInt(vrt.Nm("from", i)), To: vrt.AnyInt(vrt.Nm("to", i))}
	}
	return ix
}

func okRange(rg tensor.Range, size int) bool {
	whole := vrt.And(rg.From == 0, rg.To == 0)
	return vrt.Or(whole, vrt.And(vrt.And(0 <= rg.From, rg.From < rg.To), rg.To <= size))
}

func verdict(label string, err error, valid bool) {
	vrt.Assert(label+": accepted exactly when the documented precondition holds", (err == nil) == valid)
	if valid {
		vrt.Reach("accepted")
	} else {
		vrt.Reach("rejected")
	}
}

func H_C09_val_index() {
	which := vrt.SParam("fn")
	r := vrt.Param("rank")
	dims := anyDims("d", r, maxSize)
	n := vrt.Concretize(vrt.Int("n", 0, r+1))
	switch which {
	case "At":
		idx := anyArgs("i", n)
		valid := n == r
		if valid {
			for i := range idx {
				valid = vrt.And(valid, vrt.And(0 <= idx[i], idx[i] < dims[i]))
			}
		}
		verdict("At", validator.ValidateAtIndexAgainstDims(idx, dims), valid)
	case "Slice":
		ix := anyIndex(n)
		valid := n <= r
		if valid {
			for i := range ix {
				valid = vrt.And(valid, okRange(ix[i], dims[i]))
			}
		}
		verdict("Slice", validator.ValidateSliceIndexAgainstDims(ix, dims), valid)
	case "Patch":
		ix := anyIndex(n)
		ru := vrt.Concretize(vrt.Int("ru", 0, r+1))
		src := anyDims("u", ru, maxSize)
		valid := ru == r && n <= r
		if valid {
			for i := range src {
				valid = vrt.And(valid, src[i] <= dims[i])
			}
			for i := range ix {
				whole := vrt.And(ix[i].From == 0, ix[i].To == 0)
				valid = vrt.And(valid, okRange(ix[i], dims[i]))
				valid = vrt.And(valid, vrt.Or(whole, ix[i].To-ix[i].From == src[i]))
			}
		}
		verdict("Patch", validator.ValidatePatchIndexAgainstDims(ix, src, dims), valid)
	}
}

func H_C09_val_dim() {
	which := vrt.SParam("fn")
	r := vrt.Param("rank")
	dims := anyDims("d", r, maxSize)
	dim := vrt.AnyInt("dim")
	in := vrt.And(0 <= dim, dim < r)
	switch which {
	case "Reduced":
		verdict("reducers", validator.ValidateReducedDimAgainstDims(dim, dims), in)
	case "Flatten":
		verdict("Flatten", validator.ValidateFlattenDimAgainstDims(dim, dims), in)
	case "UnSqueeze":
		verdict("UnSqueeze", validator.ValidateUnSqueezeDimAgainstDims(dim, dims), vrt.And(0 <= dim, dim <= r))
	case "Squeeze":
		valid := false
		if in {
			valid = dims[vrt.Concretize(dim)] == 1
		}
		verdict("Squeeze", validator.ValidateSqueezeDimAgainstDims(dim, dims), valid)
	case "Transpose":
		verdict("Transpose", validator.ValidateTransposeDims(dims), r >= 2)
	case "InputDims":
		a := anyArgs("a", r)
		valid := true
		for i := range a {
			valid = vrt.And(valid, a[i] > 0)
		}
		verdict("InputDims", validator.ValidateInputDims(a), valid)
	}
}

func H_C09_val_shapes() {
	which := vrt.SParam("fn")
	ra, rb := vrt.Param("ra"), vrt.Param("rb")
	switch which {
	case "Reshape":
		// sizes up to 2^15, ranks <= 3: the element-count products cannot wrap
		a := anyDims("a", ra, 1<<15)
		b := anyDims("b", rb, 1<<15)
		pa, pb := 1, 1
		for _, v := range a {
			pa = pa * v
		}
		for _, v := range b {
			pb = pb * v
		}
		verdict("Reshape", validator.ValidateReshapeSourceDimsAgainstTargetDims(a, b), pa == pb)
	case "Broadcast":
		a := anyDims("a", ra, maxSize)
		b := anyDims("b", rb, maxSize)
		valid := ra <= rb
		if valid {
			for i := 0; i < ra; i++ {
				t := b[i+rb-ra]
				valid = vrt.And(valid, vrt.Or(a[i] == t, a[i] == 1))
			}
		}
		verdict("Broadcast", validator.ValidateBroadcastSourceDimsAgainstTargetDims(a, b), valid)
	case "Match":
		a := anyDims("a", ra, maxSize)
		b := anyDims("b", rb, maxSize)
		valid := ra == rb
		if valid {
			for i := range a {
				valid = vrt.And(valid, a[i] == b[i])
			}
		}
		verdict("BinaryFuncDimsMatch", validator.ValidateBinaryFuncDimsMatch(a, b), valid)
	case "Dot":
		a := anyDims("a", ra, maxSize)
		b := anyDims("b", rb, maxSize)
		valid := ra >= 1 && rb >= 1
		if valid {
			valid = a[ra-1] == b[rb-1]
		}
		verdict("DotProductDims", validator.ValidateDotProductDims(a, b), valid)
	case "MatMul":
		a := anyDims("a", ra, maxSize)
		b := anyDims("b", rb, maxSize)
		valid := ra >= 2 && rb >= 2
		if valid {
			valid = a[ra-1] == b[rb-2]
		}
		verdict("MatMulDims", validator.ValidateMatMulDims(a, b), valid)
	}
}
