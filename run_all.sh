#!/bin/sh
# Runs every registered check (default tier quick) on /repo's current tree; prints one line per check.
tier=${1:-quick}
for id in $(python3 -c "import json;print(' '.join(c['property_id'] for c in json.load(open('/verif/MANIFEST.json'))['checks']))"); do
  out=$(/verif/check $id $tier 2>&1); rc=$?
  echo "$out" | grep -E '^(VIOLATION|BROKEN|INCOMPLETE|VALIDATION-MISMATCH)' | head -5 | cut -c1-200
  echo "$out" | grep -E '^KNOWN-FINDING' | cut -c1-120
  echo "rc=$rc $(echo "$out" | grep '^check ' | cut -c1-260)"
done
