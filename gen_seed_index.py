#!/usr/bin/env python3
"""Writes seeded/INDEX.md from seeded/*/meta.json (which checks catch which seeded changes)."""
import json, glob, os
rows = []
for f in sorted(glob.glob('/verif/seeded/*/meta.json')):
    m = json.load(open(f))
    rows.append(m)
out = ["# Seeded changes and the checks that catch them", "",
       "Each change was produced by an independent sub-agent that saw only the property text and a scratch worktree,",
       "was confirmed in a fresh worktree (suite still green, demonstration fails with / passes without the change) and",
       "was then run against the checks (`seed_eval.py`).  `target` = the property the change was written against.",
       "`caught by` is the all-check run made when the change was collected (rounds a-c and part of d against /repo itself with the",
       "patch applied, the rest of round d target-only; the machinery was extended afterwards, so a later state can only catch more);",
       "`final` is the target check re-run with the machinery as committed (`seed_final.py`, scratch worktree).", "",
       "| name | target | needs to manifest | caught by (tier) | target caught then | final: target check |", "|---|---|---|---|---|---|"]
for m in rows:
    need = (m.get('needs_to_manifest') or '').replace('|', '/').replace('\n', ' ')
    if len(need) > 220:
        need = need[:217] + '...'
    ft = m.get('final_target')
    fin = '-' if not ft else ('VIOLATION reported (%d)' % ft['violations'] if ft['rc'] == 1 else 'not caught (rc=%d)' % ft['rc'])
    out.append(f"| {m['name']} | {m['property']} | {need} | {', '.join(m.get('caught_by', [])) or '-'} ({m.get('checks_tier')}) | {'yes' if m.get('target_caught') else 'NO'} | {fin} |")
def finally_caught(m):
    ft = m.get('final_target')
    return (ft['rc'] == 1) if ft else bool(m.get('target_caught'))
missed = [m for m in rows if not finally_caught(m)]
out += ["", f"{len(rows)} confirmed changes; target check catches {len(rows)-len(missed)}; some other check catches {sum(1 for m in missed if m.get('caught_by'))} of the rest.", ""]
if missed:
    out += ["## Not caught by the target check", ""]
    for m in missed:
        out.append(f"* **{m['name']}** ({m['property']}): {m.get('summary','')[:400]}  -- reason: {m.get('miss_reason','(see DESIGN 8.6)')}")
open('/verif/seeded/INDEX.md', 'w').write('\n'.join(out) + '\n')
print('\n'.join(out[-6:]))
