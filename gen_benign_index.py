#!/usr/bin/env python3
"""benign/INDEX.md from the logs of ./benign_eval.sh (one line per patch and check: '<name> <check> ok' or details)."""
import glob, json, os, re, sys
logs = sys.argv[1:] or sorted(glob.glob('/tmp/benign_R_*.log'))
res = {}
for f in logs:
    for l in open(f):
        m = re.match(r'^R(\d+) (C\d+) (ok|rc=(\d+).*)$', l.strip())
        if not m:
            continue
        k, c = int(m.group(1)), m.group(2)
        res.setdefault(k, {})[c] = 'ok' if m.group(3) == 'ok' else m.group(3)[:160]
out = ['# Behaviour-preserving changes used as false-alarm probes', '',
       'Each `B<k>/patch.diff` is a refactoring that must not change behaviour (suite green; written by a sub-agent that saw only a',
       'worktree of the library).  `./benign_eval.sh benign/B<k>/patch.diff <name>` runs every check (quick tier) against a scratch',
       'worktree of /repo HEAD + the patch.  Expected: exit 0 and no VIOLATION / BROKEN line for every check.', '',
       '| patch | area / what it does | constructs | checks with exit 0 and nothing undischarged | anything else |', '|---|---|---|---|---|']
for k in sorted(res):
    meta = {}
    try:
        meta = json.load(open(f'/verif/benign/B{k}/meta.json'))
    except Exception:
        pass
    ok = sum(1 for v in res[k].values() if v == 'ok')
    other = '; '.join(f'{c}: {v}' for c, v in sorted(res[k].items()) if v != 'ok') or '-'
    cons = ', '.join(meta.get('constructs_used', [])[:8]) if isinstance(meta.get('constructs_used'), list) else ''
    cl = lambda x: str(x).replace('|', '/').replace('\n', ' ')
    out.append(f"| B{k} | {cl(meta.get('area',''))[:90]} | {cl(cons)[:140]} | {ok}/{len(res[k])} | {cl(other)} |")
    json.dump(res[k], open(f'/verif/benign/B{k}/results.json', 'w'), indent=1)
open('/verif/benign/INDEX.md', 'w').write('\n'.join(out) + '\n')
print('patches:', len(res), 'all ok:', sum(1 for k in res if all(v == 'ok' for v in res[k].values())))
