#!/usr/bin/env python3
"""Regenerates MANIFEST.json from the table below (run by hand after registering a check)."""
import json
props=[json.loads(l) for l in open('/verif/properties.jsonl')]
TECH="go/ssa symbolic execution of the real code (concrete heap, symbolic scalars) + z3 SMT queries per obligation; counterexamples replayed natively"
NOTE_COMMON=("Bounded: ranks/sizes/argument ranges as listed in evidence.bounds; float64 modelled as exact reals + definedness "
  "(rounding/overflow outside the claim); math.* and gonum samplers are contract stubs; trusted: go/ssa lowering, the executor's "
  "semantics for the SSA instructions met (validated by replaying sampled path models natively), z3 4.8.12, the reference models in /verif/harness.")
checks={
 "C10":("Immutability and decoupling decided on the executor's exact store log: every op / BackPropagate / Update / ResetGradContext is executed symbolically and every store into an object allocated before the call is an obligation (allowed: gradient and spent fields in BackPropagate, the pointee in Update, the receiver's context in ResetGradContext); caller-owned slices are overwritten with fresh solver values after the call (also between forward and BackPropagate) and tensors / gradients must equal the reference computed from the original arguments.","3 C10"),
 "C20":("Sequential write-footprint of every forward op, layer/activation/loss evaluation, private-graph back-propagation and random constructor on shared pre-existing operands, decided on the executor's exact store log over all explored paths, plus determinism (identical result terms on repetition).  Race-freedom under every interleaving follows by the read-only argument (stated assumption, not explored by the solver); a reported shared write is replayed natively in real goroutines under the Go race detector.","3 C20"),
 "C09":("Every public entry point of the tensor and component packages is called symbolically with solver-chosen arguments (integers in [-2,6], slices of length 0..3 or nil, tensors of any small rank/shape or nil, ragged nested data, invalid configs); every Go panic site on the path (index, slice bounds, nil dereference, nil func, type assertion, explicit panic) is an obligation; err != nil is proved equivalent to the documented precondition and results have the defined shape.","3 C09, Appendix A"),
 "C08":("Tracking flags: (a) one application of every op with each operand in a solver-chosen tracking state (inductive step over flags), (b) solver-enumerated bounded histories including BackPropagate and ResetGradContext against a reference state machine; flags, gradient presence and write footprints compared after every step.","3 C08"),
 "C11":("One inductive training step (forward, loss, BackPropagate, SGD.Update on both FC parameters, ResetGradContext) from arbitrary symbolic weights, repeated on the real post-update objects with values abstracted; new weights proved equal to w - lr*dLoss/dw (closed-form reference), post-state invariant (tracked, unspent, no gradient, no edges) checked; no-reset variant must error.  B>1 deviates by the Broadcast mean (known finding, deviant oracle).","3 C11, 5"),
 "C18":("Initializers and RandU/RandN executed symbolically with gonum's samplers replaced by contract stubs: shape, tracking, one distinct fresh draw per element and per call, and the exact parameter terms of every draw (fan values 1..64 and all real bounds symbolic) are decided by the solver; the distributional half rests on gonum's contract and is only sampled natively.","3 C18"),
 "C19":("One Accumulate call from an arbitrary symbolic pre-state {total, correct} (inductive step), plus every split of a batch into two calls and the invalid-call cases, executed symbolically in package metrics; counters and Result decided over mathematical integers/reals.","3 C19"),
 "C12":("MSE/BCE/CE Compute executed symbolically for every batch/class size in the bounds; the scalar is proved equal to the defining formula (clipping as ite), finite and non-negative for all real predictions/targets of magnitude <= 1e6, independent of tracking.","3 C12"),
 "C13":("Loss gradient w.r.t. the prediction (leaf or product of two tracked leaves) obtained by the real back-propagation is proved equal to the analytic derivative, 0 where clipped, finite including p=0 and p=1.","3 C13"),
 "C14":("Each activation executed symbolically for every shape/dim/config in the bounds; outputs proved equal to the defining formula; Softmax proved non-negative and summing to 1 along Dim.","3 C14"),
 "C15":("Gradient through each activation (input a leaf or u*v) with arbitrary upstream proved equal to upstream times derivative (interval membership at 0 for Relu/LeakyRelu).  Softmax on the unchanged tree deviates through the Broadcast mean (known finding bcast_backward_mean, attributed by deviant oracle).","3 C15, 5"),
 "C16":("FC constructed through the public API (custom and default initializers, replacement through Weights()), Forward and back-propagation executed symbolically for all sizes in the bounds; outputs and gradients compared with the affine formula and its derivatives.  dW/dB deviate by the batch mean on the unchanged tree (known finding bcast_backward_mean).","3 C16, 5"),
 "C17":("SGD.Update executed symbolically after a real back-propagation: new tensor equals w - lr*g element-wise for all real w, g, lr; old tensor and gradient untouched; error cases replace nothing.","3 C17"),
 "C01":("Bounded symbolic model checking of the back-propagation walk: the solver enumerates every straight-line program shape (operands, op codes, root, tracked flags) within the bound; the gradient of every tensor in the graph is proved equal, as a polynomial identity in the leaf values, to the adjoint of an independent reverse-mode tape; rule-application counts are monitored.","3 C01"),
 "C07":("Explicit Broadcast and implicit expansion in Add/Sub/Mul/Div/Dot/MatMul executed symbolically for every solver-chosen shape pair; the gradient delivered to the original operand is compared with the sum of the upstream over its copies.  The unchanged tree violates this (mean instead of sum): recorded as known finding bcast_backward_mean and attributed per path through a deviant oracle.","3 C07, 5"),
 "C02":("Each of the 33 differentiable ops is applied once with solver-chosen shape/arguments/tracked subset, an arbitrary symbolic upstream weighting is back-propagated through it, and every gradient element is proved finite and equal to an independently written VJP for all real operand values in the differentiability domain.","3 C02"),
 "C03":("Every element-wise op / comparison / implicit-broadcast arithmetic path within the bounds is executed symbolically; each output element is proved equal to the scalar function of the NumPy-mapped operand elements for all real inputs.","3 C03"),
 "C04":("MatMul/Dot/Transpose executed symbolically for every solver-chosen shape pair in the bounds; each output element proved equal to the explicit sum of products; A.I=A and (AB)^T=B^T A^T proved as polynomial identities.","3 C04"),
 "C05":("All seven reductions (full and along every dim) executed symbolically for every shape in the bounds; extrema by bound-and-attained, Var/Std/mean by real-arithmetic identity.","3 C05"),
 "C06":("Indexing/reshaping/construction ops executed symbolically with shapes and index arguments as solver integers; every output element proved identical to the input variable selected by an independent index map.","3 C06"),
}
B=" Bounded model checking, not a proof: nothing is claimed outside the ranks / sizes / argument ranges / program lengths recorded in evidence.bounds and outside_bounds."
R=" float64 is exact real arithmetic + definedness (division by zero, log<=0, 0^negative); rounding, overflow/underflow and NaN payloads are outside the claim; math.* are uninterpreted functions with ground lemmas."
T=" Trusted: go/ssa lowering; the executor's semantics for the SSA instructions met (checked by replaying sampled path models natively: traces_validated_against_impl, validation_mismatches=0); z3 4.8.12 / 5.1.0 (sampled cross-check); the reference models in /verif/harness/overlay/zzh."
notes={
 "C01":"Programs of <=3 steps (4 over {Add,Mul}) over <=2 leaves of shape [2]; alphabet {Scale,Add,Sub,Mul,Concat+Slice,identity Broadcast}; per-op rules are C02's subject and compose with the op-agnostic walk. Work bound: instruction count at depth 2d vs d (d<=8) symbolically, depth-40 stack natively."+B+R+T,
 "C02":"One application of each of the 33 ops, rank<=3 sizes<=3 (rank 4 sizes<=2; vectors to 6), operands assumed inside the differentiability domain (listed in evidence.assumptions)."+B+R+T,
 "C03":"Rank<=3 sizes<=3, ranks 4-6 sizes<=2; Eq/Ne/Equals pairs identical or apart by >1e-200; the bit-level comparison kernels (signed zero, NaN) are not modelled."+B+R+T,
 "C04":"Operand ranks 2..4 (5 with sizes<=2), sizes<=3 (4 for plain matrices)."+B+R+T,
 "C05":"Rank<=3 sizes<=3, ranks 4-6 sizes<=2, vectors to 8; extrema by bound-and-attained, Std by r>=0 and r^2=Var. Numerical stability of the variance formula (cancellation) is a floating-point fact outside the real model."+B+R+T,
 "C06":"Value-parametric: assertions are term identities, so they hold for every element value. Rank<=3 sizes<=3, rank 4 sizes<=2."+B+T,
 "C07":"The unchanged tree violates this property (known finding bcast_backward_mean, KNOWN_FINDINGS.txt); each violated path is re-decided against a deviant oracle that computes exactly sum/expansion-factor, anything else is reported."+B+R+T,
 "C08":"(a) one step from arbitrary operand states covers flag propagation for any history length; (b) histories of <=3 (4) steps against a reference state machine under the property's preconditions."+B+T,
 "C09":"Preconditions per DESIGN Appendix A; integers in [-2,6], slices <=3, live tensors rank<=3 sizes<=3, ragged data depth<=4; validator layer additionally at full 64-bit width over bit-vectors (sizes in [1,2^40]). Hangs are only detected as an exhausted step budget. Foreign Tensor implementations are not exercised."+B+T,
 "C10":"Decided on the executor's exact store log (every ssa.Store / copy / append into an object allocated before the call) plus observable-state comparison; one operation (or op -> BackPropagate -> Update) per program."+B+T,
 "C11":"Inductive step from arbitrary weights; FC output and (except Relu) activation output are abstracted to fresh variables where no backward rule reads them (DESIGN 8.2); transcendental activations at batch size 1. B>1 deviates by the Broadcast mean (known finding, deviant oracle)."+B+R+T,
 "C12":"B,C<=3 (vectors to 5); log is uninterpreted with its sign contract; 1-(1-1e-12) is exactly 1e-12 here (its float64 rounding is not modelled)."+B+R+T,
 "C13":"Predictions in [0,1] apart from the two clip bounds by >1e-200, targets in [0,1]; prediction a leaf, q*r, or a recycled leaf."+B+R+T,
 "C14":"exp is uninterpreted with exp>0: overflow/underflow of e^x is not modelled (candidates the solver cannot prove are replayed natively at magnitudes up to 700)."+B+R+T,
 "C15":"Relu/LeakyRelu inputs exactly 0 or apart from 0 by >1e-200. Softmax deviates through the Broadcast mean (known finding, deviant oracle)."+B+R+T,
 "C16":"B,F,O<=3; dW/dB deviate by the batch mean (known finding, deviant oracle); gonum's uniform sampler is a contract stub."+B+R+T,
 "C17":"rank<=3 sizes<=3 (vectors to 6); learning rate any real."+B+R+T,
 "C18":"Only the non-distributional half is decided by the solver (shape, tracking, one distinct fresh draw per element and call, exact parameter terms for fans 1..64). That gonum realises the distributions is its contract; moments are only sampled natively (6 sigma, 40000 draws) during replay/validation."+B+T,
 "C19":"Counters are mathematical integers with 0<=correct<=total<2^40; labels may be NaN; float rounding inside Accumulate is not modelled."+B+T,
 "C20":"NOT an exploration of schedules: a sequential write-footprint analysis (exact store log) over all explored paths plus the read-only argument of the Go memory model, stated as an assumption; gonum/x-exp locking is trusted. Reported shared writes are replayed in real goroutines under the race detector."+B+T,
}
na={}
m={"version":1,
 "setup_cmd":"cd /verif/engine && GOFLAGS=-mod=mod GOPROXY=off GOSUMDB=off GOTOOLCHAIN=local go build -o /verif/bin/qsym . && /verif/bin/qsym selftest",
 "hooks":{"guard":"verif","enable":"no hooks: harnesses are injected with go/packages overlays (symbolic side) and go test -overlay (native replay); /repo is never modified by the machinery","baseline_off_cmd":"cd /repo && go test -vet=off -count=1 ./...","source_commits":[],"add_only":True},
 "engines":[{"name":"qsym","path":"/verif/engine","serves_properties":sorted(checks),"kind_free_text":"go/ssa symbolic executor (concrete heap, symbolic scalars, fork by re-execution) emitting SMT-LIB2 to a persistent z3 4.8.12; one-shot z3 4.8.12 / 5.1.0 fallback; native replay through go test -overlay"}],
 "checks":[],"not_applicable":[]}
for p in props:
    i=p["id"]
    if i in checks:
        text,ref=checks[i]
        m["checks"].append({"property_id":i,"quick_cmd":f"./check {i} quick","thorough_cmd":f"./check {i} thorough",
          "evidence_file":f"/verif/evidence/{i}.json","replay_cmd_template":f"./check {i} --replay {{path}}","engine":"qsym",
          "level_claimed":{"category":("other" if i=="C20" else "model_checking"),"text":text,"design_ref":ref},
          "level_note":notes.get(i,NOTE_COMMON),"technique":TECH})
    else:
        m["not_applicable"].append({"property_id":i,"reason":na.get(i,"check under construction in this session (engine exists; harness not yet registered)")})
json.dump(m,open('/verif/MANIFEST.json','w'),indent=1)
print("checks:",[c["property_id"] for c in m["checks"]])
