#!/usr/bin/env python3
"""Regenerates MANIFEST.json from the table below (run by hand after registering a check)."""
import json
props=[json.loads(l) for l in open('/verif/properties.jsonl')]
TECH="go/ssa symbolic execution of the real code (concrete heap, symbolic scalars) + z3 SMT queries per obligation; counterexamples replayed natively"
NOTE_COMMON=("Bounded: ranks/sizes/argument ranges as listed in evidence.bounds; float64 modelled as exact reals + definedness "
  "(rounding/overflow outside the claim); math.* and gonum samplers are contract stubs; trusted: go/ssa lowering, the executor's "
  "semantics for the SSA instructions met (validated by replaying sampled path models natively), z3 4.8.12, the reference models in /verif/harness.")
checks={
 "C10":("Immutability and decoupling decided on the executor's exact store log: every op / BackPropagate / Update / ResetGradContext is executed symbolically and every store into an object allocated before the call is an obligation (allowed: gradient and spent fields in BackPropagate, the pointee in Update, the receiver's context in ResetGradContext); caller-owned slices are overwritten with fresh solver values after the call (also between forward and BackPropagate) and tensors / gradients must equal the reference computed from the original arguments.","3 C10"),
 "C20":("Sequential write-footprint of every forward op, layer/activation/loss evaluation, private-graph back-propagation and random constructor on shared pre-existing operands, decided on the executor's exact store log over all explored paths, plus determinism (identical result terms on repetition).  Race-freedom under every interleaving follows by the read-only argument (stated assumption, not explored by the solver); a reported shared write is replayed natively in real goroutines under the Go race detector.","3 C20"),
 "C09":("Every public entry point of the tensor and component packages is called symbolically with solver-chosen arguments (integers in [-2,6], slices of length 0..3 or nil, tensors of any small rank/shape or nil, ragged nested data, invalid configs); every Go panic site on the path (index, slice bounds, nil dereference, nil func, type assertion, explicit panic) is an obligation; err != nil is proved equivalent to the documented precondition and results have the defined shape.","3 C09, Appendix A"),
 "C08":("Tracking flags: (a) one application of every op with each operand in a solver-chosen tracking state (inductive step over flags), (b) solver-enumerated bounded histories including BackPropagate and ResetGradContext against a reference state machine; flags, gradient presence and write footprints compared after every step.","3 C08"),
 "C11":("One inductive training step (forward, loss, BackPropagate, SGD.Update on both FC parameters, ResetGradContext) from arbitrary symbolic weights, repeated on the real post-update objects with values abstracted; new weights proved equal to w - lr*dLoss/dw (closed-form reference), post-state invariant (tracked, unspent, no gradient, no edges) checked; no-reset variant must error.  B>1 deviates by the Broadcast mean (known finding, deviant oracle).","3 C11, 5"),
 "C18":("Initializers and RandU/RandN executed symbolically with gonum's samplers replaced by contract stubs: shape, tracking, one distinct fresh draw per element and per call, and the exact parameter terms of every draw (fan values 1..64 and all real bounds symbolic) are decided by the solver; the distributional half rests on gonum's contract and is only sampled natively.","3 C18"),
 "C19":("One Accumulate call from an arbitrary symbolic pre-state {total, correct} (inductive step), plus every split of a batch into two calls and the invalid-call cases, executed symbolically in package metrics; counters and Result decided over mathematical integers/reals.","3 C19"),
 "C12":("MSE/BCE/CE Compute executed symbolically for every batch/class size in the bounds; the scalar is proved equal to the defining formula (clipping as ite), finite and non-negative for all real predictions/targets of magnitude <= 1e6, independent of tracking.","3 C12"),
 "C13":("Loss gradient w.r.t. the prediction (leaf or product of two tracked leaves) obtained by the real back-propagation is proved equal to the analytic derivative, 0 where clipped, finite including p=0 and p=1.","3 C13"),
 "C14":("Each activation executed symbolically for every shape/dim/config in the bounds; outputs proved equal to the defining formula; Softmax proved non-negative and summing to 1 along Dim.","3 C14"),
 "C15":("Gradient through each activation (input a leaf or u*v) with arbitrary upstream proved equal to upstream times derivative (interval membership at 0 for Relu/LeakyRelu).  Softmax on the unchanged tree deviates through the Broadcast mean (known finding bcast_backward_mean, attributed by deviant oracle).","3 C15, 5"),
 "C16":("FC constructed through the public API (custom and default initializers, replacement through Weights()), Forward and back-propagation executed symbolically for all sizes in the bounds; outputs and gradients compared with the affine formula and its derivatives.  dW/dB deviate by the batch mean on the unchanged tree (known finding bcast_backward_mean).","3 C16, 5"),
 "C17":("SGD.Update executed symbolically after a real back-propagation: new tensor equals w - lr*g element-wise for all real w, g, lr; old tensor and gradient untouched; error cases replace nothing.","3 C17"),
 "C01":("Bounded symbolic model checking of the back-propagation walk: the solver enumerates every straight-line program shape (operands, op codes, root, tracked flags) within the bound; the gradient of every tensor in the graph is proved equal, as a polynomial identity in the leaf values, to the adjoint of an independent reverse-mode tape; rule-application counts are monitored.","3 C01"),
 "C07":("Explicit Broadcast and implicit expansion in Add/Sub/Mul/Div/Dot/MatMul executed symbolically for every solver-chosen shape pair; the gradient delivered to the original operand is compared with the sum of the upstream over its copies.  The unchanged tree violates this (mean instead of sum): recorded as known finding bcast_backward_mean and attributed per path through a deviant oracle.","3 C07, 5"),
 "C02":("Each of the 33 differentiable ops is applied once with solver-chosen shape/arguments/tracked subset, an arbitrary symbolic upstream weighting is back-propagated through it, and every gradient element is proved finite and equal to an independently written VJP for all real operand values in the differentiability domain.","3 C02"),
 "C03":("Every element-wise op / comparison / implicit-broadcast arithmetic path within the bounds is executed symbolically; each output element is proved equal to the scalar function of the NumPy-mapped operand elements for all real inputs.","3 C03"),
 "C04":("MatMul/Dot/Transpose executed symbolically for every solver-chosen shape pair in the bounds; each output element proved equal to the explicit sum of products; A.I=A and (AB)^T=B^T A^T proved as polynomial identities.","3 C04"),
 "C05":("All seven reductions (full and along every dim) executed symbolically for every shape in the bounds; extrema by bound-and-attained, Var/Std/mean by real-arithmetic identity.","3 C05"),
 "C06":("Indexing/reshaping/construction ops executed symbolically with shapes and index arguments as solver integers; every output element proved identical to the input variable selected by an independent index map.","3 C06"),
}
notes={}
na={}
m={"version":1,
 "setup_cmd":"cd /verif/engine && GOFLAGS=-mod=mod GOPROXY=off GOSUMDB=off GOTOOLCHAIN=local go build -o /verif/bin/qsym . && /verif/bin/qsym selftest",
 "hooks":{"guard":"verif","enable":"no hooks: harnesses are injected with go/packages overlays (symbolic side) and go test -overlay (native replay); /repo is never modified by the machinery","baseline_off_cmd":"cd /repo && go test -vet=off -count=1 ./...","source_commits":[],"add_only":True},
 "engines":[{"name":"qsym","path":"/verif/engine","serves_properties":sorted(checks),"kind_free_text":"go/ssa symbolic executor (concrete heap, symbolic scalars, fork by re-execution) emitting SMT-LIB2 to a persistent z3 4.8.12; one-shot z3 4.8.12 / 5.1.0 fallback; native replay through go test -overlay"}],
 "checks":[],"not_applicable":[]}
for p in props:
    i=p["id"]
    if i in checks:
        text,ref=checks[i]
        m["checks"].append({"property_id":i,"quick_cmd":f"./check {i} quick","thorough_cmd":f"./check {i} thorough",
          "evidence_file":f"/verif/evidence/{i}.json","replay_cmd_template":f"./check {i} --replay {{path}}","engine":"qsym",
          "level_claimed":{"category":("other" if i=="C20" else "model_checking"),"text":text,"design_ref":ref},
          "level_note":notes.get(i,NOTE_COMMON),"technique":TECH})
    else:
        m["not_applicable"].append({"property_id":i,"reason":na.get(i,"check under construction in this session (engine exists; harness not yet registered)")})
json.dump(m,open('/verif/MANIFEST.json','w'),indent=1)
print("checks:",[c["property_id"] for c in m["checks"]])
