#!/usr/bin/env python3
"""Re-decides every seeded change with the machinery as committed now: target check only, quick tier,
against a scratch worktree of /repo HEAD + patch (QSYM_REPO).  Adds "final_target" to seeded/<name>/meta.json.
usage: seed_final.py [name ...]   (default: all)"""
import glob, json, os, subprocess, sys, time
ENV = dict(os.environ, GOFLAGS="-mod=mod", GOPROXY="off", GOSUMDB="off", GOTOOLCHAIN="local")
def sh(c, **k):
    p = subprocess.run(c, shell=True, env=ENV, capture_output=True, text=True, **k)
    return p.returncode, p.stdout + p.stderr
names = sys.argv[1:] or sorted(os.path.basename(d) for d in glob.glob('/verif/seeded/C*_*') if os.path.isdir(d))
commit = sh('git -C /verif rev-parse --short HEAD')[1].strip()
for name in names:
    d = f'/verif/seeded/{name}'
    mf = f'{d}/meta.json'
    try:
        meta = json.load(open(mf))
    except Exception:
        print(name, 'no meta.json'); continue
    prop = meta['property']
    wt = f'/tmp/sf_{name}'
    sh(f'git -C /repo worktree remove --force {wt}')
    rc, o = sh(f'git -C /repo worktree add -q --detach {wt} HEAD')
    if rc != 0:
        print(name, 'worktree failed', o[:200]); continue
    try:
        rc, o = sh(f'git -C {wt} apply {d}/patch.diff')
        if rc != 0:
            print(name, 'patch does not apply'); continue
        t0 = time.time()
        rc, o = sh(f'QSYM_REPO={wt} QSYM_EVIDENCE_DIR=/tmp/sf_ev_{name} QSYM_REPLAY_DIR=/tmp/sf_ev_{name}/replays /verif/check {prop} quick', timeout=3600)
        viol = [l for l in o.splitlines() if l.startswith('VIOLATION')]
        detail = [l.strip() for l in o.splitlines() if l.startswith('  harness=')]
        line = [l for l in o.splitlines() if l.startswith('check ')]
        meta['final_target'] = {'check': prop, 'rc': rc, 'violations': len(viol), 'first': detail[0][:300] if detail else '',
                                'summary': line[0][:220] if line else o[-200:], 'verif_commit': commit, 'wall_s': round(time.time() - t0, 1),
                                'ran_against': 'scratch worktree of /repo HEAD + patch (QSYM_REPO)'}
        json.dump(meta, open(mf, 'w'), indent=1)
        print(name, 'rc=', rc, 'violations=', len(viol), flush=True)
    finally:
        sh(f'git -C /repo worktree remove --force {wt}')
        sh(f'rm -rf {wt} /tmp/sf_ev_{name}')
