#!/bin/sh
# usage: tools_mut.sh <file-in-repo> <sed-expr> <check-id> [tier]  -- apply mutation, run check, revert
f=$1; e=$2; id=$3; tier=${4:-quick}
cd /repo && sed -i "$e" "$f" && git diff --stat | tail -1
if git diff --quiet; then echo "MUTATION DID NOT APPLY"; exit 3; fi
(cd /repo && GOFLAGS=-mod=mod go build ./... ) || { git -C /repo checkout -- .; echo "does not compile"; exit 3; }
cd /verif && ./check $id $tier | grep -vE '^  ' | tail -6; rc=$?
git -C /repo checkout -- .
exit $rc
